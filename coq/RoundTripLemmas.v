(* C02, client -> server direction: what the client's writeRequest serialises, the request parser
   model parses back to exactly the components it was built from.  The serialiser is
   WireModel.write_request, the parser is ParserModel.whole (RequestLineStep, HeadersStep, BodyStep
   as restartable automata). *)
From Coq Require Import Ascii String List NArith ZArith Bool Arith Lia.
Require Import Bytes BytesLemmas NumParse Decimal Restartable TablesGen ParserModel ParserLemmas WireModel.
Import ListNotations.

Definition lacks (c : ascii) (w : bytes) : Prop := Forall (fun x => ascii_eqb x c = false) w.

Lemma lacks_app c a b : lacks c (a ++ b) <-> lacks c a /\ lacks c b.
Proof. unfold lacks. apply Forall_app. Qed.

Section Scan.
  Variables ctl eff fin : Type.
  Variable delta : ctl -> ascii -> ctl * list eff.
  Variable final : ctl -> option fin.
  Notation run := (arun ctl eff fin delta final).

  Lemma arun_cons s acc n c d : final s = None ->
    run s acc n (c :: d) = run (fst (delta s c)) (acc ++ snd (delta s c)) (S n) d.
  Proof. intros H. cbn [arun]. rewrite H. destruct (delta s c); reflexivity. Qed.

  Lemma arun_final s acc n d f : final s = Some f -> run s acc n d = ASettled f n acc.
  Proof. intros H. destruct d; cbn [arun]; rewrite H; reflexivity. Qed.

  (* a family of states st(racc) that just accumulate the characters of a word *)
  Lemma arun_scan (st : bytes -> ctl) (ok : ascii -> Prop) :
    (forall racc, final (st racc) = None) ->
    (forall racc c, ok c -> delta (st racc) c = (st (c :: racc), [])) ->
    forall w racc acc n rest, Forall ok w ->
      run (st racc) acc n (w ++ rest) = run (st (rev w ++ racc)) acc (n + length w) rest.
  Proof.
    intros Hf Hd. induction w as [|c w IH]; intros racc acc n rest Hw.
    - cbn. rewrite Nat.add_0_r. reflexivity.
    - cbn [app]. rewrite arun_cons by apply Hf. rewrite (Hd racc c (Forall_inv Hw)). cbn [fst snd].
      rewrite app_nil_r. rewrite IH by exact (Forall_inv_tail Hw).
      cbn [rev length]. rewrite <- app_assoc. cbn [app]. f_equal. lia.
  Qed.
End Scan.

(* ---------------- request line ---------------- *)

Notation rlrun := (arun rl eff fin rl_delta rl_final).

Definition okc (cs : list ascii) (x : ascii) : Prop := Forall (fun c => ascii_eqb x c = false) cs.

Lemma rl_method_scan w racc acc n rest : Forall (okc [" "%char]) w ->
  rlrun (RL_Method racc) acc n (w ++ rest) = rlrun (RL_Method (rev w ++ racc)) acc (n + length w) rest.
Proof.
  apply (arun_scan _ _ _ rl_delta rl_final RL_Method); [reflexivity|].
  intros r c H. cbn [rl_delta]. rewrite (Forall_inv H). reflexivity.
Qed.

Lemma rl_resource_scan w racc acc n rest : Forall (okc ["?"%char; " "%char]) w ->
  rlrun (RL_Resource racc) acc n (w ++ rest) = rlrun (RL_Resource (rev w ++ racc)) acc (n + length w) rest.
Proof.
  apply (arun_scan _ _ _ rl_delta rl_final RL_Resource); [reflexivity|].
  intros r c H. cbn [rl_delta]. rewrite (Forall_inv H), (Forall_inv (Forall_inv_tail H)). reflexivity.
Qed.

Lemma rl_qkey_scan w racc acc n rest : Forall (okc ["="%char; " "%char; "&"%char]) w ->
  rlrun (RL_QKey racc) acc n (w ++ rest) = rlrun (RL_QKey (rev w ++ racc)) acc (n + length w) rest.
Proof.
  apply (arun_scan _ _ _ rl_delta rl_final RL_QKey); [reflexivity|].
  intros r c H. cbn [rl_delta]. unfold rl_qkey.
  rewrite (Forall_inv H), (Forall_inv (Forall_inv_tail H)), (Forall_inv (Forall_inv_tail (Forall_inv_tail H))). reflexivity.
Qed.

Lemma rl_qval_scan key w racc acc n rest : Forall (okc [" "%char; "&"%char]) w ->
  rlrun (RL_QVal key racc) acc n (w ++ rest) = rlrun (RL_QVal key (rev w ++ racc)) acc (n + length w) rest.
Proof.
  apply (arun_scan _ _ _ rl_delta rl_final (RL_QVal key)); [reflexivity|].
  intros r c H. cbn [rl_delta]. rewrite (Forall_inv H), (Forall_inv (Forall_inv_tail H)). reflexivity.
Qed.

(* " HTTP/1.1" CR LF after the resource or the query *)
Lemma rl_version acc n rest :
  rlrun (RL_Version []) acc n (list_of_string "HTTP/1.1" ++ crlf ++ rest) = ASettled FNext (n + 10) (acc ++ [SetVersion 1%N]).
Proof.
  cbn [list_of_string app crlf].
  repeat (rewrite arun_cons by reflexivity; cbn [rl_delta fst snd]; rewrite ?app_nil_r).
  cbn. rewrite arun_final with (f := FNext) by reflexivity. f_equal. lia.
Qed.

Fixpoint pairs_text (qs : list (bytes * bytes)) : bytes :=
  match qs with
  | [] => []
  | (k, v) :: r => k ++ "="%char :: v ++ (match r with [] => [] | _ => "&"%char :: pairs_text r end)
  end.
Definition query_text (qs : list (bytes * bytes)) : bytes :=
  match qs with [] => [] | _ => "?"%char :: pairs_text qs end.

Definition wf_pair (p : bytes * bytes) : Prop :=
  Forall (okc ["="%char; " "%char; "&"%char]) (fst p) /\ Forall (okc [" "%char; "&"%char]) (snd p).

Lemma rl_qhead_as_key c d acc n : ascii_eqb c " " = false ->
  rlrun RL_QHead acc n (c :: d) = rlrun (RL_QKey []) acc n (c :: d).
Proof. intros H. rewrite !arun_cons by reflexivity. cbn [rl_delta]. rewrite H. reflexivity. Qed.

Lemma rl_pair_sp k v acc n rest : wf_pair (k, v) ->
  rlrun (RL_QKey []) acc n (k ++ "="%char :: v ++ " "%char :: rest)
  = rlrun (RL_Version []) (acc ++ [AddQuery k v]) (n + length k + 1 + length v + 1) rest.
Proof.
  intros [Hk Hv]. cbn [fst snd] in *.
  rewrite rl_qkey_scan by exact Hk. rewrite app_nil_r.
  rewrite arun_cons by reflexivity. cbn [rl_delta]. unfold rl_qkey. replace (ascii_eqb "=" "=") with true by reflexivity.
  cbn [fst snd]. rewrite app_nil_r, rev_involutive.
  rewrite rl_qval_scan by exact Hv. rewrite app_nil_r.
  rewrite arun_cons by reflexivity. cbn [rl_delta fst snd]. replace (ascii_eqb " " " ") with true by reflexivity.
  cbn [fst snd]. rewrite rev_involutive. f_equal. lia.
Qed.

Lemma rl_pair_amp k v acc n rest : wf_pair (k, v) ->
  rlrun (RL_QKey []) acc n (k ++ "="%char :: v ++ "&"%char :: rest)
  = rlrun RL_QHead (acc ++ [AddQuery k v]) (n + length k + 1 + length v + 1) rest.
Proof.
  intros [Hk Hv]. cbn [fst snd] in *.
  rewrite rl_qkey_scan by exact Hk. rewrite app_nil_r.
  rewrite arun_cons by reflexivity. cbn [rl_delta]. unfold rl_qkey. replace (ascii_eqb "=" "=") with true by reflexivity.
  cbn [fst snd]. rewrite app_nil_r, rev_involutive.
  rewrite rl_qval_scan by exact Hv. rewrite app_nil_r.
  rewrite arun_cons by reflexivity. cbn [rl_delta fst snd].
  replace (ascii_eqb "&" " ") with false by reflexivity. replace (ascii_eqb "&" "&") with true by reflexivity.
  cbn [fst snd]. rewrite rev_involutive. f_equal. lia.
Qed.

Lemma first_not_space (k v : bytes) (t : bytes) : Forall (okc ["="%char; " "%char; "&"%char]) k ->
  exists c d, k ++ "="%char :: t = c :: d /\ ascii_eqb c " " = false.
Proof.
  intros Hk. destruct k as [|c k]; cbn [app].
  - exists "="%char, t. split; reflexivity.
  - exists c, (k ++ "="%char :: t). split; [reflexivity|]. exact (Forall_inv (Forall_inv_tail (Forall_inv Hk))).
Qed.

Lemma rl_pairs : forall qs acc n rest, qs <> [] -> Forall wf_pair qs ->
  rlrun RL_QHead acc n (pairs_text qs ++ " "%char :: rest)
  = rlrun (RL_Version []) (acc ++ map (fun p => AddQuery (fst p) (snd p)) qs) (n + length (pairs_text qs) + 1) rest.
Proof.
  induction qs as [|[k v] qs IH]; intros acc n rest Hne Hwf; [congruence|].
  pose proof (Forall_inv Hwf) as Hp. pose proof (Forall_inv_tail Hwf) as Hq.
  cbn [pairs_text map fst snd]. destruct qs as [|q qs'].
  - rewrite app_nil_r. rewrite <- !app_assoc. cbn [app map].
    destruct (first_not_space k v (v ++ " "%char :: rest) (proj1 Hp)) as [c [d [E Hc]]].
    rewrite E, (rl_qhead_as_key c d) by exact Hc. rewrite <- E.
    rewrite rl_pair_sp by exact Hp. f_equal. rewrite !app_length. cbn [length]. lia.
  - rewrite <- !app_assoc. cbn [app]. rewrite <- !app_assoc. cbn [app].
    destruct (first_not_space k v (v ++ "&"%char :: pairs_text (q :: qs') ++ " "%char :: rest) (proj1 Hp)) as [c [d [E Hc]]].
    rewrite E, (rl_qhead_as_key c d) by exact Hc. rewrite <- E.
    rewrite rl_pair_amp by exact Hp. rewrite IH by (try discriminate; exact Hq).
    rewrite <- app_assoc. cbn [app map fst snd]. f_equal.
    rewrite !app_length. cbn [length]. rewrite !app_length. cbn [length]. lia.
Qed.

Definition wf_method (mt : bytes) (mi : N) : Prop := Forall (okc [" "%char]) mt /\ method_lookup mt = Some mi.
Definition wf_resource (res : bytes) : Prop := Forall (okc ["?"%char; " "%char]) res.

Definition request_line (mt res : bytes) (qs : list (bytes * bytes)) : bytes :=
  mt ++ " "%char :: res ++ query_text qs ++ " "%char :: list_of_string "HTTP/1.1" ++ crlf.
Definition request_line_effs (mi : N) (res : bytes) (qs : list (bytes * bytes)) : list eff :=
  [SetMethod mi; SetResource res] ++ map (fun p => AddQuery (fst p) (snd p)) qs ++ [SetVersion 1%N].

Lemma request_line_parses mt mi res qs rest : wf_method mt mi -> wf_resource res -> Forall wf_pair qs ->
  line_step KRequest (request_line mt res qs ++ rest)
  = ASettled FNext (length (request_line mt res qs)) (request_line_effs mi res qs).
Proof.
  intros [Hm Hl] Hr Hq. unfold line_step, request_line, request_line_effs.
  rewrite <- !app_assoc. rewrite rl_method_scan by exact Hm. rewrite app_nil_r.
  cbn [app]. rewrite arun_cons by reflexivity. cbn [rl_delta fst snd].
  replace (ascii_eqb " " " ") with true by reflexivity. rewrite rev_involutive, Hl. cbn [fst snd app].
  rewrite <- !app_assoc. rewrite rl_resource_scan by exact Hr. rewrite app_nil_r.
  destruct qs as [|q qs'].
  - cbn [query_text app map]. rewrite arun_cons by reflexivity. cbn [rl_delta fst snd].
    replace (ascii_eqb " " "?") with false by reflexivity. replace (ascii_eqb " " " ") with true by reflexivity.
    cbn [fst snd]. rewrite rev_involutive. rewrite <- ?app_assoc. rewrite rl_version. f_equal.
    rewrite !app_length. cbn [length]. rewrite !app_length. cbn. lia.
  - cbn [query_text app]. rewrite arun_cons by reflexivity. cbn [rl_delta fst snd].
    replace (ascii_eqb "?" "?") with true by reflexivity. cbn [fst snd]. rewrite rev_involutive.
    rewrite <- app_assoc. cbn [app]. rewrite rl_pairs by (try discriminate; exact Hq).
    rewrite <- ?app_assoc. rewrite rl_version. f_equal.
    rewrite !app_length. cbn [length]. rewrite !app_length. cbn [length]. rewrite !app_length. cbn. lia.
Qed.

(* ---------------- header lines ---------------- *)

Section Headers.
  Variable typed_other : N -> bytes -> option err.
  Variable set_cookie : bytes -> option (bytes * bytes).
  Notation hsrun := (arun hs eff fin (hs_delta typed_other set_cookie) hs_final).
  Notation process := (process_header typed_other set_cookie).

  Definition wf_name (nm : bytes) : Prop := nm <> [] /\ Forall (okc [":"%char; c_cr]) nm.
  Definition wf_value (v : bytes) : Prop :=
    Forall (okc [c_lf]) v /\ match v with c :: _ => ascii_eqb c " " = false | [] => True end.

  Lemma hs_name_scan w racc acc n rest : Forall (okc [":"%char; c_cr]) w ->
    hsrun (H_Name racc) acc n (w ++ rest) = hsrun (H_Name (rev w ++ racc)) acc (n + length w) rest.
  Proof.
    apply (arun_scan _ _ _ (hs_delta typed_other set_cookie) hs_final H_Name); [reflexivity|].
    intros r c H. cbn [hs_delta]. unfold name_char. rewrite (Forall_inv H). reflexivity.
  Qed.

  Lemma hs_value_scan nm w racc acc n rest : Forall (okc [c_lf]) w ->
    hsrun (H_Value nm racc) acc n (w ++ rest) = hsrun (H_Value nm (rev w ++ racc)) acc (n + length w) rest.
  Proof.
    apply (arun_scan _ _ _ (hs_delta typed_other set_cookie) hs_final (H_Value nm)); [reflexivity|].
    intros r c H. cbn [hs_delta]. unfold value_char. destruct r as [|p r']; [reflexivity|].
    rewrite (Forall_inv H). reflexivity.
  Qed.

  Lemma hs_name nm acc n rest : wf_name nm ->
    hsrun H_LineStart acc n (nm ++ ":"%char :: rest) = hsrun (H_SkipSp nm) acc (n + length nm + 1) rest.
  Proof.
    intros [Hne Hok]. destruct nm as [|c w]; [congruence|]. cbn [app].
    rewrite arun_cons by reflexivity. cbn [hs_delta]. pose proof (Forall_inv Hok) as Hc.
    rewrite (Forall_inv (Forall_inv_tail Hc)). unfold name_char. rewrite (Forall_inv Hc). cbn [fst snd].
    rewrite app_nil_r. rewrite hs_name_scan by exact (Forall_inv_tail Hok).
    rewrite arun_cons by reflexivity. cbn [hs_delta]. unfold name_char.
    replace (ascii_eqb ":" ":") with true by reflexivity. cbn [fst snd]. rewrite app_nil_r.
    rewrite rev_app_distr. cbn [rev app]. rewrite rev_involutive. cbn [app length]. f_equal. lia.
  Qed.

  Lemma hs_value nm v acc n rest : wf_value v ->
    hsrun (H_SkipSp nm) acc n (" "%char :: v ++ c_cr :: c_lf :: rest)
    = hsrun (fst (process nm v)) (acc ++ snd (process nm v)) (n + 1 + length v + 2) rest.
  Proof.
    intros [Hok Hfirst].
    rewrite arun_cons by reflexivity. cbn [hs_delta]. replace (ascii_eqb " " " ") with true by reflexivity.
    cbn [fst snd]. rewrite app_nil_r.
    (* the first character after the blank is not a blank: from here H_SkipSp behaves as H_Value nm [] *)
    assert (Hsk : forall c d a k, ascii_eqb c " " = false ->
               hsrun (H_SkipSp nm) a k (c :: d) = hsrun (H_Value nm []) a k (c :: d)).
    { intros c d a k Hc. rewrite !arun_cons by reflexivity. cbn [hs_delta]. rewrite Hc. reflexivity. }
    replace (v ++ c_cr :: c_lf :: rest) with ((v ++ [c_cr]) ++ c_lf :: rest) by (rewrite <- app_assoc; reflexivity).
    assert (Hfirst' : exists c d, (v ++ [c_cr]) ++ c_lf :: rest = c :: d /\ ascii_eqb c " " = false).
    { destruct v as [|c v']; cbn [app]; [exists c_cr; eexists; split; reflexivity|].
      exists c; eexists; split; [reflexivity|exact Hfirst]. }
    destruct Hfirst' as [c [d [E Hc]]]. rewrite E, Hsk by exact Hc. rewrite <- E.
    rewrite hs_value_scan.
    2:{ apply Forall_app. split; [exact Hok|]. constructor; [|constructor]. constructor; [reflexivity|constructor]. }
    rewrite app_nil_r, rev_app_distr. cbn [rev app].
    rewrite arun_cons by reflexivity. cbn [hs_delta]. unfold value_char.
    replace (ascii_eqb c_lf c_lf && ascii_eqb c_cr c_cr) with true by reflexivity.
    rewrite rev_involutive. f_equal. rewrite app_length. cbn [length]. lia.
  Qed.

  Lemma hs_blank acc n rest : hsrun H_LineStart acc n (c_cr :: c_lf :: rest) = ASettled FNext (n + 2) acc.
  Proof.
    rewrite arun_cons by reflexivity. cbn [hs_delta]. replace (ascii_eqb c_cr c_cr) with true by reflexivity.
    cbn [fst snd]. rewrite arun_cons by reflexivity. cbn [hs_delta]. replace (ascii_eqb c_lf c_lf) with true by reflexivity.
    cbn [fst snd]. rewrite !app_nil_r. rewrite arun_final with (f := FNext) by reflexivity. f_equal. lia.
  Qed.

  Definition ok_line (l : (bytes * bytes) * list eff) : Prop :=
    wf_name (fst (fst l)) /\ wf_value (snd (fst l)) /\ process (fst (fst l)) (snd (fst l)) = (H_LineStart, snd l).

  Lemma hs_line l acc n rest : ok_line l ->
    hsrun H_LineStart acc n (header_line (fst l) ++ rest)
    = hsrun H_LineStart (acc ++ snd l) (n + length (header_line (fst l))) rest.
  Proof.
    destruct l as [[nm v] effs]. intros [Hn [Hv Hp]]. cbn [fst snd] in *. unfold header_line. cbn [fst snd list_of_string].
    unfold crlf. rewrite <- !app_assoc. cbn [app]. rewrite hs_name by exact Hn.
    rewrite hs_value by exact Hv. rewrite Hp. cbn [fst snd]. f_equal.
    rewrite !app_length. cbn [length]. rewrite !app_length. cbn [length]. lia.
  Qed.

  Lemma hs_lines : forall ls acc n rest, Forall ok_line ls ->
    hsrun H_LineStart acc n (flat_map (fun l => header_line (fst l)) ls ++ rest)
    = hsrun H_LineStart (acc ++ flat_map snd ls) (n + length (flat_map (fun l => header_line (fst l)) ls)) rest.
  Proof.
    induction ls as [|l ls IH]; intros acc n rest H.
    - cbn. rewrite app_nil_r, Nat.add_0_r. reflexivity.
    - cbn [flat_map]. rewrite <- app_assoc. rewrite hs_line by exact (Forall_inv H).
      rewrite IH by exact (Forall_inv_tail H). rewrite <- app_assoc. f_equal. rewrite app_length. lia.
  Qed.

  (* the whole header block: lines, then the blank line *)
  Lemma headers_parse ls rest : Forall ok_line ls ->
    headers_step typed_other set_cookie (flat_map (fun l => header_line (fst l)) ls ++ crlf ++ rest)
    = ASettled FNext (length (flat_map (fun l => header_line (fst l)) ls) + 2) (flat_map snd ls).
  Proof.
    intros H. unfold headers_step. rewrite hs_lines by exact H. unfold crlf. cbn [app].
    rewrite hs_blank. reflexivity.
  Qed.
End Headers.

(* ---------------- the whole request ---------------- *)

Section Whole.
  Variable typed_other : N -> bytes -> option err.
  Variable set_cookie : bytes -> option (bytes * bytes).

  Lemma skipn_len_app {A} (a b : list A) : skipn (length a) (a ++ b) = b.
  Proof. rewrite skipn_app, skipn_all, Nat.sub_diag. reflexivity. Qed.

  Definition request_text (mt res : bytes) (qs : list (bytes * bytes)) (ls : list ((bytes * bytes) * list eff)) (body : bytes) : bytes :=
    request_line mt res qs ++ flat_map (fun l => header_line (fst l)) ls ++ crlf ++ body.

  Definition parsed_head (mi : N) (res : bytes) (qs : list (bytes * bytes)) (ls : list ((bytes * bytes) * list eff)) : msg :=
    apply msg_init (request_line_effs mi res qs ++ flat_map snd ls).

  (* how the body is framed, read off the parsed head *)
  Definition body_framed (m : msg) (body : bytes) : Prop :=
    typed_get m id_transfer_encoding = None /\
    match body with
    | [] => typed_get m id_content_length = None \/ (exists c, typed_get m id_content_length = Some c /\ cl_value c = 0%N)
    | _ => exists c, typed_get m id_content_length = Some c /\ cl_value c = N.of_nat (length body)
    end.

  Lemma parse0_settled k buf cur m bs n e :
    line_step k (skipn cur buf) = ASettled FNext n e ->
    parse typed_other set_cookie k (mkP buf cur 0 m bs)
    = parse1 typed_other set_cookie (mkP buf (cur + n) 1 (apply m e) bs).
  Proof. intros H. unfold parse, parse0, restart_step. cbn [p_step p_cur p_buf p_msg p_bs]. rewrite H. reflexivity. Qed.

  Lemma parse1_settled buf cur m bs n e :
    headers_step typed_other set_cookie (skipn cur buf) = ASettled FNext n e ->
    parse1 typed_other set_cookie (mkP buf cur 1 m bs) = parse2 (mkP buf (cur + n) 2 (apply m e) bs).
  Proof. intros H. unfold parse1, restart_step. cbn [p_step p_cur p_buf p_msg p_bs]. rewrite H. reflexivity. Qed.

  Theorem request_parses_back mt mi res qs ls body :
    wf_method mt mi -> wf_resource res -> Forall wf_pair qs -> Forall (ok_line typed_other set_cookie) ls ->
    m_body (parsed_head mi res qs ls) = [] ->
    body_framed (parsed_head mi res qs ls) body ->
    exists st, whole typed_other set_cookie KRequest (request_text mt res qs ls body) = (PDone, st)
               /\ p_msg st = set_body (parsed_head mi res qs ls) body
               /\ p_cur st = length (request_text mt res qs ls body).
  Proof.
    intros Hm Hr Hq Hl Hb0 [Hte Hcl].
    unfold whole, feed_raw, pstate_init. cbn [p_step p_buf p_cur p_msg p_bs app].
    rewrite (parse0_settled KRequest _ 0 msg_init bstate_init (length (request_line mt res qs)) (request_line_effs mi res qs)).
    2:{ cbn [skipn]. unfold request_text. apply request_line_parses; assumption. }
    rewrite (parse1_settled _ _ _ _ (length (flat_map (fun l => header_line (fst l)) ls) + 2) (flat_map snd ls)).
    2:{ cbn [Nat.add]. unfold request_text. rewrite skipn_len_app. apply headers_parse. exact Hl. }
    rewrite <- apply_app. fold (parsed_head mi res qs ls).
    set (m := parsed_head mi res qs ls) in *.
    unfold parse2. cbn [p_msg p_bs p_buf p_cur Nat.add].
    assert (Hskip : skipn (length (request_line mt res qs) + (length (flat_map (fun l => header_line (fst l)) ls) + 2))
                          (request_text mt res qs ls body) = body).
    { unfold request_text. rewrite app_assoc, app_assoc.
      replace (length (request_line mt res qs) + (length (flat_map (fun l => header_line (fst l)) ls) + 2))
        with (length ((request_line mt res qs ++ flat_map (fun l => header_line (fst l)) ls) ++ crlf))
        by (rewrite !app_length; cbn; lia).
      apply skipn_len_app. }
    rewrite Hskip. unfold body_step. rewrite Hte.
    assert (Hlen : length (request_text mt res qs ls body)
                   = length (request_line mt res qs) + (length (flat_map (fun l => header_line (fst l)) ls) + 2) + length body).
    { unfold request_text. rewrite !app_length. cbn. lia. }
    destruct body as [|b0 body'].
    - destruct Hcl as [Hnone | [c [Hc Hv]]].
      + rewrite Hnone. eexists. split; [reflexivity|]. cbn [p_msg p_cur]. rewrite Hb0. split; [reflexivity|]. rewrite Hlen. cbn. lia.
      + rewrite Hc. unfold body_cl. rewrite Hv. cbn [bstate_init b_read length N.of_nat].
        replace (0 <? 0)%N with false by reflexivity.
        eexists. split; [reflexivity|]. cbn [p_msg p_cur]. rewrite Hb0. cbn. split; [reflexivity|]. rewrite Hlen. cbn. lia.
    - destruct Hcl as [c [Hc Hv]]. rewrite Hc. unfold body_cl. rewrite Hv. cbn [bstate_init b_read].
      replace (0 <? 0)%N with false by reflexivity. rewrite N.ltb_irrefl. rewrite Nat2N.id, firstn_all.
      eexists. split; [reflexivity|]. cbn [p_msg p_cur]. rewrite Hb0. cbn [app]. split; [reflexivity|]. rewrite Hlen. lia.
  Qed.
End Whole.

(* ---------------- the Cookie header ---------------- *)

Definition cookie_text (cs : list (bytes * bytes)) : bytes :=
  match cs with
  | [] => []
  | c :: r => fst c ++ "="%char :: snd c ++ flat_map (fun e : bytes * bytes => list_of_string "; " ++ fst e ++ "="%char :: snd e) r
  end.

Definition wf_cookie (c : bytes * bytes) : Prop :=
  Forall (okc ["="%char; " "%char; "009"%char; c_lf]) (fst c) /\ Forall (okc [";"%char; c_lf]) (snd c).

Lemma split_at_found c : forall w rest, Forall (okc [c]) w -> split_at c (w ++ c :: rest) = Some (w, c :: rest).
Proof.
  induction w as [|x w IH]; intros rest H; cbn [app split_at].
  - rewrite ascii_eqb_refl. reflexivity.
  - rewrite (Forall_inv (Forall_inv H)). rewrite IH by exact (Forall_inv_tail H). reflexivity.
Qed.

Lemma split_at_none c : forall w, Forall (okc [c]) w -> split_at c w = None.
Proof.
  induction w as [|x w IH]; intros H; cbn [split_at]; [reflexivity|].
  rewrite (Forall_inv (Forall_inv H)). rewrite IH by exact (Forall_inv_tail H). reflexivity.
Qed.

Lemma okc_weaken (l1 l2 : list ascii) x : incl l2 l1 -> okc l1 x -> okc l2 x.
Proof. unfold okc. intros Hi H. rewrite Forall_forall in *. intros c Hc. apply H. apply Hi. exact Hc. Qed.

Lemma Forall_okc_weaken (l1 l2 : list ascii) w : incl l2 l1 -> Forall (okc l1) w -> Forall (okc l2) w.
Proof. intros Hi H. eapply Forall_impl; [|exact H]. intros x. apply okc_weaken. exact Hi. Qed.

Lemma skip_blanks_name k rest : Forall (okc ["="%char; " "%char; "009"%char; c_lf]) k ->
  skip_blanks (" "%char :: k ++ "="%char :: rest) = k ++ "="%char :: rest.
Proof.
  intros Hk. cbn [skip_blanks]. replace (ascii_eqb " " " ") with true by reflexivity. cbn [orb].
  destruct k as [|c k']; cbn [app skip_blanks]; [reflexivity|].
  pose proof (Forall_inv Hk) as Hc. rewrite (Forall_inv (Forall_inv_tail Hc)), (Forall_inv (Forall_inv_tail (Forall_inv_tail Hc))). reflexivity.
Qed.

(* the tail of a cookie list as it appears after the first pair: "; k=v; k=v" *)
Definition cookie_tail (r : list (bytes * bytes)) : bytes :=
  flat_map (fun e : bytes * bytes => list_of_string "; " ++ fst e ++ "="%char :: snd e) r.

Lemma cookie_header_pairs : forall r k v fuel, Forall wf_cookie ((k, v) :: r) -> length r < fuel ->
  cookie_header fuel (k ++ "="%char :: v ++ cookie_tail r) = (map (fun c => AddCookie (fst c) (snd c)) ((k, v) :: r), false).
Proof.
  induction r as [|[k2 v2] r IH]; intros k v fuel Hwf Hf; (destruct fuel as [|f]; [cbn in Hf; lia|]).
  - destruct (Forall_inv Hwf) as [Hk Hv]. cbn [fst snd] in *. cbn [cookie_tail flat_map]. rewrite app_nil_r.
    cbn [cookie_header]. destruct (k ++ "="%char :: v) as [|x xs] eqn:E; [destruct k; discriminate|]. rewrite <- E.
    rewrite split_at_found by (eapply Forall_okc_weaken; [|exact Hk]; intros a [<-|[]]; left; reflexivity).
    cbn [tl]. rewrite split_at_none by (eapply Forall_okc_weaken; [|exact Hv]; intros a [<-|[]]; left; reflexivity).
    cbn [skip_blanks]. destruct f; reflexivity.
  - destruct (Forall_inv Hwf) as [Hk Hv]. cbn [fst snd] in *.
    pose proof (Forall_inv_tail Hwf) as Hwf'. destruct (Forall_inv Hwf') as [Hk2 Hv2]. cbn [fst snd] in *.
    cbn [cookie_tail flat_map fst snd list_of_string]. fold (cookie_tail r).
    cbn [cookie_header]. destruct (k ++ "="%char :: v ++ _) as [|x xs] eqn:E; [destruct k; discriminate|]. rewrite <- E.
    rewrite split_at_found by (eapply Forall_okc_weaken; [|exact Hk]; intros a [<-|[]]; left; reflexivity).
    cbn [tl]. rewrite <- !app_assoc. cbn [app].
    rewrite split_at_found by (eapply Forall_okc_weaken; [|exact Hv]; intros a [<-|[]]; left; reflexivity).
    cbn [tl]. rewrite skip_blanks_name by exact Hk2.
    rewrite IH by (try exact Hwf'; cbn [length] in Hf; lia). reflexivity.
Qed.

Lemma cookie_header_text cs : Forall wf_cookie cs ->
  cookie_header (S (length (cookie_text cs))) (cookie_text cs) = (map (fun c => AddCookie (fst c) (snd c)) cs, false).
Proof.
  intros H. destruct cs as [|[k v] r]; [reflexivity|]. cbn [cookie_text fst snd]. fold (cookie_tail r).
  apply cookie_header_pairs; [exact H|].
  (* every further cookie contributes at least "; =" to the text *)
  assert (G : forall r, length r <= length (cookie_tail r)).
  { induction r0 as [|e r0 IHr]; [cbn; lia|]. cbn [cookie_tail flat_map length]. fold (cookie_tail r0).
    rewrite !app_length. cbn [list_of_string length]. lia. }
  rewrite !app_length. cbn [length]. rewrite app_length. pose proof (G r). lia.
Qed.

(* ---------------- what Http::Client writes ---------------- *)

Section Client.
  Variable typed_other : N -> bytes -> option err.
  Variable set_cookie : bytes -> option (bytes * bytes).
  Notation process := (process_header typed_other set_cookie).

  Definition idx (nm : string) : N := match reg_lookup (list_of_string nm) with Some i => i | None => 0%N end.
  Definition ua : bytes := list_of_string "pistache/0.1".
  Definition slash (path : bytes) : bytes :=
    match path with c :: _ => if ascii_eqb c "/" then [] else ["/"%char] | [] => ["/"%char] end.

  Definition not_cookie_name (nm : bytes) : Prop :=
    bytes_eqb (lower_bytes nm) (list_of_string "cookie") = false /\ bytes_eqb (lower_bytes nm) (list_of_string "set-cookie") = false.

  (* a header the application added that the registry does not know *)
  Definition plain_header (h : bytes * bytes) : Prop :=
    wf_name (fst h) /\ wf_value (snd h) /\ not_cookie_name (fst h) /\ reg_lookup (fst h) = None.

  Lemma process_plain nm v : not_cookie_name nm -> reg_lookup nm = None -> process nm v = (H_LineStart, [AddRaw nm v]).
  Proof. intros [H1 H2] H3. unfold process_header. rewrite H1, H2, H3. reflexivity. Qed.

  Lemma process_typed nm v i : not_cookie_name nm -> reg_lookup nm = Some i -> typed_check typed_other i v = None ->
    process nm v = (H_LineStart, [AddTyped i v; AddRaw nm v]).
  Proof. intros [H1 H2] H3 H4. unfold process_header. rewrite H1, H2, H3, H4. reflexivity. Qed.

  Lemma process_cookie cs : Forall wf_cookie cs ->
    process (list_of_string "Cookie") (cookie_text cs)
    = (H_LineStart, ClearCookies :: map (fun c => AddCookie (fst c) (snd c)) cs ++ [AddRaw (list_of_string "Cookie") (cookie_text cs)]).
  Proof.
    intros H. unfold process_header.
    replace (bytes_eqb (lower_bytes (list_of_string "Cookie")) (list_of_string "cookie")) with true by (vm_compute; reflexivity).
    rewrite (cookie_header_text cs H). reflexivity.
  Qed.

  Definition cookie_line (cs : list (bytes * bytes)) : (bytes * bytes) * list eff :=
    ((list_of_string "Cookie", cookie_text cs),
     ClearCookies :: map (fun c => AddCookie (fst c) (snd c)) cs ++ [AddRaw (list_of_string "Cookie") (cookie_text cs)]).
  Definition plain_line (h : bytes * bytes) : (bytes * bytes) * list eff := (h, [AddRaw (fst h) (snd h)]).
  Definition typed_line (nm : string) (v : bytes) : (bytes * bytes) * list eff :=
    ((list_of_string nm, v), [AddTyped (idx nm) v; AddRaw (list_of_string nm) v]).

  Definition client_lines (cs hs : list (bytes * bytes)) (host body : bytes) : list ((bytes * bytes) * list eff) :=
    cookie_line cs :: map plain_line hs
    ++ [typed_line "User-Agent" ua; typed_line "Host" host]
    ++ (match body with [] => [] | _ => [typed_line "Content-Length" (print_dec (N.of_nat (length body)))] end).

  Lemma plain_lines_text hs : flat_map (fun l : (bytes * bytes) * list eff => header_line (fst l)) (map plain_line hs) = flat_map header_line hs.
  Proof. induction hs as [|h hs IH]; [reflexivity|]. cbn [map flat_map plain_line fst]. rewrite IH. reflexivity. Qed.

  Lemma write_request_is_text mt host path qs cs hs body :
    write_request mt host path (query_text qs) cs hs body
    = request_text mt (slash path ++ path) qs (client_lines cs hs host body) body.
  Proof.
    unfold write_request, request_text, request_line, client_lines. fold (slash path). fold (cookie_text cs).
    cbn [flat_map]. rewrite !flat_map_app, plain_lines_text.
    destruct body as [|b0 body'];
      cbn [flat_map typed_line cookie_line]; unfold header_line, crlf, ua; cbn [fst snd];
      repeat (progress (rewrite <- ?app_assoc; cbn [app list_of_string])); reflexivity.
  Qed.
  (* ---- side conditions discharged ---- *)

  Lemma cookie_text_wf cs : Forall wf_cookie cs -> wf_value (cookie_text cs).
  Proof.
    intros H. destruct cs as [|[k v] r]; [split; [constructor|exact I]|].
    destruct (Forall_inv H) as [Hk Hv]. cbn [fst snd] in *. cbn [cookie_text fst snd]. fold (cookie_tail r). split.
    - apply Forall_app. split; [eapply Forall_okc_weaken; [|exact Hk]; intros a [<-|[]]; right; right; right; left; reflexivity|].
      constructor; [repeat constructor|]. apply Forall_app. split; [eapply Forall_okc_weaken; [|exact Hv]; intros a [<-|[]]; right; left; reflexivity|].
      pose proof (Forall_inv_tail H) as Hr. clear H Hk Hv. induction r as [|[k2 v2] r IH]; [constructor|].
      destruct (Forall_inv Hr) as [Hk2 Hv2]. cbn [fst snd] in *. cbn [cookie_tail flat_map fst snd list_of_string app]. fold (cookie_tail r). rewrite <- ?app_assoc. cbn [app].
      constructor; [repeat constructor|]. constructor; [repeat constructor|].
      apply Forall_app. split; [eapply Forall_okc_weaken; [|exact Hk2]; intros a [<-|[]]; right; right; right; left; reflexivity|].
      constructor; [repeat constructor|]. apply Forall_app. split; [eapply Forall_okc_weaken; [|exact Hv2]; intros a [<-|[]]; right; left; reflexivity|].
      apply IH. exact (Forall_inv_tail Hr).
    - destruct k as [|c k']; cbn [app]; [reflexivity|]. exact (Forall_inv (Forall_inv_tail (Forall_inv Hk))).
  Qed.

  Lemma digit_not_special c d : digit_val 10 c = Some d -> ascii_eqb c c_lf = false /\ ascii_eqb c " " = false.
  Proof.
    unfold digit_val. destruct (is_digit c) eqn:E; [|cbn; discriminate]. intros _.
    unfold is_digit, in_range in E. apply andb_true_iff in E. destruct E as [E1 E2]. apply N.leb_le in E1. apply N.leb_le in E2.
    split; (match goal with |- ascii_eqb c ?x = false => destruct (ascii_eqb c x) eqn:Q; [apply ascii_eqb_eq in Q; subst c; cbn in *; lia|reflexivity] end).
  Qed.

  Lemma print_dec_wf n : wf_value (print_dec n).
  Proof.
    destruct (print_dec_spec n) as [Hne [Hall _]]. split.
    - eapply Forall_impl; [|exact Hall]. intros c [d Hd]. constructor; [|constructor]. apply (digit_not_special c d Hd).
    - destruct (print_dec n) as [|c r]; [exact I|]. destruct (Forall_inv Hall) as [d Hd]. apply (digit_not_special c d Hd).
  Qed.

  Definition typed_ok (nm : string) (v : bytes) : Prop := typed_other (idx nm) v = None.

  Lemma client_lines_ok cs hs host body :
    Forall wf_cookie cs -> Forall plain_header hs -> wf_value host ->
    typed_ok "User-Agent" ua -> typed_ok "Host" host -> (N.of_nat (length body) <= 18446744073709551615)%N ->
    Forall (ok_line typed_other set_cookie) (client_lines cs hs host body).
  Proof.
    intros Hcs Hhs Hhost Hua Hh Hlen. unfold client_lines. constructor.
    - split; [split; [discriminate|repeat constructor]|]. split; [exact (cookie_text_wf cs Hcs)|]. apply process_cookie. exact Hcs.
    - apply Forall_app. split.
      + rewrite Forall_map. eapply Forall_impl; [|exact Hhs]. intros h [H1 [H2 [H3 H4]]].
        split; [exact H1|]. split; [exact H2|]. apply process_plain; assumption.
      + constructor; [|constructor].
        * split; [split; [discriminate|repeat constructor]|]. split; [split; [repeat constructor|reflexivity]|].
          apply process_typed; [split; vm_compute; reflexivity|vm_compute; reflexivity|].
          unfold typed_check. replace (match id_content_length with Some i => (i =? idx "User-Agent")%N | None => false end) with false by (vm_compute; reflexivity). exact Hua.
        * split; [split; [discriminate|repeat constructor]|]. split; [exact Hhost|].
          apply process_typed; [split; vm_compute; reflexivity|vm_compute; reflexivity|].
          unfold typed_check. replace (match id_content_length with Some i => (i =? idx "Host")%N | None => false end) with false by (vm_compute; reflexivity). exact Hh.
        * destruct body as [|b0 body']; [constructor|]. constructor; [|constructor].
          split; [split; [discriminate|repeat constructor]|]. split; [apply print_dec_wf|].
          apply process_typed; [split; vm_compute; reflexivity|vm_compute; reflexivity|].
          unfold typed_check. replace (match id_content_length with Some i => (i =? idx "Content-Length")%N | None => false end) with true by (vm_compute; reflexivity).
          unfold cl_check. pose proof (stoull_print_dec (N.of_nat (length (b0 :: body'))) [] Hlen I) as E. rewrite app_nil_r in E. rewrite E. reflexivity.
  Qed.
  (* ---- the typed headers of the parsed head, hence the body framing ---- *)

  Definition untyped (e : eff) : bool := match e with AddTyped _ _ => false | _ => true end.

  Lemma capply_untyped : forall es l, forallb untyped es = true -> capply _ same_id l (map v_typed es) = l.
  Proof.
    induction es as [|e es IH]; intros l H; [reflexivity|]. cbn [forallb] in H. apply andb_true_iff in H. destruct H as [He Hes].
    cbn [map]. unfold capply. cbn [fold_left]. fold (capply _ same_id (capply1 _ same_id l (v_typed e)) (map v_typed es)).
    rewrite IH by exact Hes. destruct e; try reflexivity. discriminate.
  Qed.

  Lemma untyped_line_effs mi res qs : forallb untyped (request_line_effs mi res qs) = true.
  Proof.
    unfold request_line_effs. rewrite forallb_app. cbn [forallb untyped andb]. rewrite forallb_app. cbn [forallb untyped andb].
    rewrite andb_true_r. induction qs as [|q qs IH]; [reflexivity|]. cbn [map forallb untyped andb]. exact IH.
  Qed.

  Lemma untyped_cookie_plain cs hs : forallb untyped (flat_map snd (cookie_line cs :: map plain_line hs)) = true.
  Proof.
    cbn [flat_map cookie_line snd]. cbn [app forallb untyped andb]. rewrite !forallb_app. cbn [forallb untyped andb].
    apply andb_true_iff. split.
    - induction cs as [|c cs IH]; [reflexivity|]. cbn [map forallb untyped andb]. exact IH.
    - induction hs as [|h hs IH]; [reflexivity|]. cbn [map flat_map plain_line snd app forallb untyped andb]. exact IH.
  Qed.

  Lemma client_typed mi res qs cs hs host body :
    m_typed (parsed_head mi res qs (client_lines cs hs host body))
    = (idx "User-Agent", ua) :: (idx "Host", host)
      :: (match body with [] => [] | _ => [(idx "Content-Length", print_dec (N.of_nat (length body)))] end).
  Proof.
    unfold parsed_head. rewrite apply_typed_only_effs. cbn [m_typed msg_init].
    unfold client_lines.
    change (cookie_line cs :: map plain_line hs ++ ?x) with ((cookie_line cs :: map plain_line hs) ++ x).
    rewrite flat_map_app, app_assoc, map_app, capply_app.
    rewrite (capply_untyped (request_line_effs mi res qs ++ flat_map snd (cookie_line cs :: map plain_line hs)))
      by (rewrite forallb_app, untyped_line_effs, untyped_cookie_plain; reflexivity).
    destruct body as [|b0 body']; cbn [flat_map typed_line snd app map v_typed]; unfold capply; cbn [fold_left capply1];
      unfold cmem; cbn [existsb same_id fst orb];
      repeat (match goal with |- context [N.eqb ?a ?b] => replace (N.eqb a b) with false by (vm_compute; reflexivity) end; cbn [orb app]);
      reflexivity.
  Qed.

  Lemma client_body_framed mi res qs cs hs host body : (N.of_nat (length body) <= 18446744073709551615)%N ->
    body_framed (parsed_head mi res qs (client_lines cs hs host body)) body.
  Proof.
    intros Hlen. unfold body_framed, typed_get. rewrite client_typed.
    replace id_transfer_encoding with (Some (idx "Transfer-Encoding")) by (vm_compute; reflexivity).
    replace id_content_length with (Some (idx "Content-Length")) by (vm_compute; reflexivity).
    destruct body as [|b0 body']; cbn [find fst snd];
      repeat (match goal with |- context [N.eqb ?a ?b] => first [replace (N.eqb a b) with false by (vm_compute; reflexivity) | replace (N.eqb a b) with true by (vm_compute; reflexivity)] end; cbn [find fst snd]).
    - split; [reflexivity|]. left. reflexivity.
    - split; [reflexivity|]. eexists. split; [reflexivity|].
      unfold cl_value. pose proof (stoull_print_dec (N.of_nat (length (b0 :: body'))) [] Hlen I) as E. rewrite app_nil_r in E. rewrite E. reflexivity.
  Qed.

  (* ---- C02, client -> server ---- *)
  Theorem client_request_roundtrip mt mi host path qs cs hs body :
    wf_method mt mi -> wf_resource (slash path ++ path) -> Forall wf_pair qs ->
    Forall wf_cookie cs -> Forall plain_header hs -> wf_value host ->
    typed_ok "User-Agent" ua -> typed_ok "Host" host -> (N.of_nat (length body) <= 18446744073709551615)%N ->
    exists st,
      whole typed_other set_cookie KRequest (write_request mt host path (query_text qs) cs hs body) = (PDone, st)
      /\ p_cur st = length (write_request mt host path (query_text qs) cs hs body)
      /\ p_msg st = set_body (parsed_head mi (slash path ++ path) qs (client_lines cs hs host body)) body.
  Proof.
    intros Hm Hr Hq Hcs Hhs Hhost Hua Hh Hlen. rewrite write_request_is_text.
    destruct (request_parses_back typed_other set_cookie mt mi (slash path ++ path) qs (client_lines cs hs host body) body Hm Hr Hq
                (client_lines_ok cs hs host body Hcs Hhs Hhost Hua Hh Hlen)) as [st [H1 [H2 H3]]].
    - unfold parsed_head. rewrite apply_body. reflexivity.
    - apply client_body_framed. exact Hlen.
    - exists st. repeat split; assumption.
  Qed.
End Client.

(* ---------------- the fields of the parsed message, spelled out ---------------- *)

Section View.
  Variables (A : Type) (same : A -> A -> bool) (f : eff -> ceff A).
  Definition keep (e : eff) : list (ceff A) := match f e with CNop => [] | x => [x] end.
  Lemma capply_view : forall es l, capply A same l (map f es) = capply A same l (flat_map keep es).
  Proof.
    induction es as [|e es IH]; intros l; [reflexivity|]. cbn [map flat_map]. unfold capply in *. cbn [fold_left].
    rewrite fold_left_app, IH. f_equal. unfold keep. destruct (f e); reflexivity.
  Qed.
End View.

Section Fields.
  Variable mi : N.
  Variables res host body : bytes.
  Variables qs cs hs : list (bytes * bytes).
  Let m := parsed_head mi res qs (client_lines cs hs host body).
  Let effs := request_line_effs mi res qs ++ flat_map snd (client_lines cs hs host body).

  Definition add_query (p : bytes * bytes) := AddQuery (fst p) (snd p).
  Definition add_cookie (p : bytes * bytes) := AddCookie (fst p) (snd p).

  Lemma keep_map_same {A} (f : eff -> ceff A) (g : bytes * bytes -> eff) (h : bytes * bytes -> A) l :
    (forall p, f (g p) = CIns (h p)) -> flat_map (keep A f) (map g l) = map (fun p => CIns (h p)) l.
  Proof. intros H. induction l as [|p l IH]; [reflexivity|]. cbn [map flat_map]. unfold keep at 1. rewrite H, IH. reflexivity. Qed.

  Lemma keep_map_none {A} (f : eff -> ceff A) (g : bytes * bytes -> eff) l :
    (forall p, f (g p) = CNop) -> flat_map (keep A f) (map g l) = [].
  Proof. intros H. induction l as [|p l IH]; [reflexivity|]. cbn [map flat_map]. unfold keep at 1. rewrite H, IH. reflexivity. Qed.

  Lemma keep_plain_none {A} (f : eff -> ceff A) l : (forall k v, f (AddRaw k v) = CNop) ->
    flat_map (keep A f) (flat_map snd (map plain_line l)) = [].
  Proof. intros H. induction l as [|p l IH]; [reflexivity|]. cbn [map flat_map plain_line snd app]. unfold keep at 1. rewrite H, IH. reflexivity. Qed.

  Lemma keep_plain_raw l :
    flat_map (keep _ v_raw) (flat_map snd (map plain_line l)) = map (fun h : bytes * bytes => CIns h) l.
  Proof. induction l as [|[k v] l IH]; [reflexivity|]. cbn [map flat_map plain_line snd app fst]. unfold keep at 1. cbn [v_raw]. rewrite IH. reflexivity. Qed.

  Definition cl_raw : list (bytes * bytes) :=
    match body with [] => [] | _ => [(list_of_string "Content-Length", print_dec (N.of_nat (length body)))] end.

  Lemma effs_split : effs =
    ([SetMethod mi; SetResource res] ++ map add_query qs ++ [SetVersion 1%N])
    ++ (ClearCookies :: map add_cookie cs ++ [AddRaw (list_of_string "Cookie") (cookie_text cs)])
    ++ flat_map snd (map plain_line hs)
    ++ [AddTyped (idx "User-Agent") ua; AddRaw (list_of_string "User-Agent") ua; AddTyped (idx "Host") host; AddRaw (list_of_string "Host") host]
    ++ (match body with [] => [] | _ => [AddTyped (idx "Content-Length") (print_dec (N.of_nat (length body)));
                                         AddRaw (list_of_string "Content-Length") (print_dec (N.of_nat (length body)))] end).
  Proof.
    unfold effs, client_lines, request_line_effs. cbn [flat_map cookie_line snd]. rewrite !flat_map_app.
    cbn [flat_map typed_line snd app]. rewrite <- !app_assoc. cbn [app].
    destruct body; cbn [flat_map typed_line snd app]; reflexivity.
  Qed.

  Ltac view_tac :=
    rewrite !flat_map_app; cbn [flat_map app].

  Lemma field_query : m_query m = capply _ same_key [] (map (fun p : bytes * bytes => CIns p) qs).
  Proof.
    unfold m, parsed_head. fold effs.
    rewrite (apply_proj _ m_query (fun x e => capply1 _ same_key x (v_query e))) by reflexivity.
    rewrite <- (fold_left_map (capply1 _ same_key) v_query). fold (capply _ same_key (m_query msg_init) (map v_query effs)).
    rewrite capply_view, effs_split. rewrite !flat_map_app.
    rewrite (keep_map_same v_query add_query (fun p => p)) by (intros [k v]; reflexivity).
    cbn [flat_map app]. rewrite !flat_map_app.
    rewrite (keep_map_none v_query add_cookie) by reflexivity.
    rewrite (keep_plain_none v_query) by reflexivity.
    destruct body; cbn [flat_map keep v_query app]; rewrite ?app_nil_r; reflexivity.
  Qed.

  Lemma field_cookies : m_cookies m = capply _ same_pair [] (map (fun p : bytes * bytes => CIns p) cs).
  Proof.
    unfold m, parsed_head. fold effs.
    rewrite (apply_proj _ m_cookies (fun x e => capply1 _ same_pair x (v_cookies e))) by reflexivity.
    rewrite <- (fold_left_map (capply1 _ same_pair) v_cookies). fold (capply _ same_pair (m_cookies msg_init) (map v_cookies effs)).
    rewrite capply_view, effs_split. rewrite !flat_map_app.
    rewrite (keep_map_none v_cookies add_query) by reflexivity.
    cbn [flat_map app]. rewrite !flat_map_app.
    rewrite (keep_map_same v_cookies add_cookie (fun p => p)) by (intros [k v]; reflexivity).
    rewrite (keep_plain_none v_cookies) by reflexivity.
    destruct body; cbn [flat_map keep v_cookies app]; rewrite ?app_nil_r; unfold capply; cbn [fold_left capply1 msg_init m_cookies]; reflexivity.
  Qed.

  Lemma field_raw : m_raw m = capply _ same_ci []
    (map (fun h : bytes * bytes => CIns h)
         ((list_of_string "Cookie", cookie_text cs) :: hs
          ++ [(list_of_string "User-Agent", ua); (list_of_string "Host", host)] ++ cl_raw)).
  Proof.
    unfold m, parsed_head. fold effs.
    rewrite (apply_proj _ m_raw (fun x e => capply1 _ same_ci x (v_raw e))) by reflexivity.
    rewrite <- (fold_left_map (capply1 _ same_ci) v_raw). fold (capply _ same_ci (m_raw msg_init) (map v_raw effs)).
    rewrite capply_view, effs_split. rewrite !flat_map_app.
    rewrite (keep_map_none v_raw add_query) by reflexivity.
    cbn [flat_map app]. rewrite !flat_map_app.
    rewrite (keep_map_none v_raw add_cookie) by reflexivity.
    rewrite keep_plain_raw. unfold cl_raw.
    destruct body; cbn [flat_map keep v_raw app map msg_init m_raw]; rewrite ?app_nil_r; rewrite !map_app; reflexivity.
  Qed.

  Lemma fold_nop {V} (view : eff -> reff V) : forall (l : list eff) x, Forall (fun e => view e = RNop) l ->
    fold_left (fun x e => rapply1 _ x (view e)) l x = x.
  Proof. induction l as [|e l IH]; intros x H; [reflexivity|]. cbn [fold_left]. rewrite (Forall_inv H). apply IH. exact (Forall_inv_tail H). Qed.

  Lemma nop_map {V} (view : eff -> reff V) (g : bytes * bytes -> eff) (l : list (bytes * bytes)) :
    (forall p, view (g p) = RNop) -> Forall (fun e => view e = RNop) (map g l).
  Proof. intros H. induction l as [|p l IH]; [constructor|]. constructor; [apply H|exact IH]. Qed.

  Lemma nop_plain {V} (view : eff -> reff V) (l : list (bytes * bytes)) :
    (forall k v, view (AddRaw k v) = RNop) -> Forall (fun e => view e = RNop) (flat_map snd (map plain_line l)).
  Proof. intros H. induction l as [|p l IH]; [constructor|]. cbn [map flat_map plain_line snd app]. constructor; [apply H|exact IH]. Qed.

  Lemma scalar_field {V} (proj : msg -> V) (view : eff -> reff V) :
    (forall x e, proj (apply1 x e) = rapply1 _ (proj x) (view e)) ->
    (forall p, view (add_query p) = RNop) -> (forall p, view (add_cookie p) = RNop) ->
    (forall k v, view (AddRaw k v) = RNop) -> (forall i v, view (AddTyped i v) = RNop) -> view ClearCookies = RNop ->
    proj m = fold_left (fun x e => rapply1 _ x (view e)) [SetMethod mi; SetResource res; SetVersion 1%N] (proj msg_init).
  Proof.
    intros Hp Hq Hc Hr Ht Hk. unfold m, parsed_head. fold effs.
    rewrite (apply_proj _ proj (fun x e => rapply1 _ x (view e)) Hp). rewrite effs_split.
    rewrite !fold_left_app. cbn [fold_left]. rewrite !fold_left_app. cbn [fold_left].
    rewrite (fold_nop view (match body with [] => [] | _ => _ end)) by (destruct body; repeat constructor; auto).
    rewrite ?Ht, ?Hr, ?Hk. cbn [rapply1].
    rewrite (fold_nop view (flat_map snd (map plain_line hs))) by (apply nop_plain; exact Hr).
    rewrite ?Ht, ?Hr, ?Hk. cbn [rapply1].
    rewrite (fold_nop view (map add_cookie cs)) by (apply nop_map; exact Hc).
    rewrite ?Ht, ?Hr, ?Hk. cbn [rapply1].
    rewrite (fold_nop view (map add_query qs)) by (apply nop_map; exact Hq).
    reflexivity.
  Qed.

  Lemma field_scalars : m_method m = mi /\ m_resource m = res /\ m_version m = 1%N /\ m_body m = [].
  Proof.
    repeat split.
    - rewrite (scalar_field m_method v_method); try reflexivity.
    - rewrite (scalar_field m_resource v_resource); try reflexivity.
    - rewrite (scalar_field m_version v_version); try reflexivity.
    - unfold m, parsed_head. rewrite apply_body. reflexivity.
  Qed.
End Fields.

(* the statement of C02 for the client -> server direction, field by field; first-wins collections:
   [capply same [] (map CIns l)] is [l] itself when the keys of l are pairwise different *)
Theorem client_request_fields typed_other set_cookie mt mi host path qs cs hs body :
  wf_method mt mi -> wf_resource (slash path ++ path) -> Forall wf_pair qs ->
  Forall wf_cookie cs -> Forall (plain_header) hs -> wf_value host ->
  typed_ok typed_other "User-Agent" ua -> typed_ok typed_other "Host" host -> (N.of_nat (length body) <= 18446744073709551615)%N ->
  exists st,
    whole typed_other set_cookie KRequest (write_request mt host path (query_text qs) cs hs body) = (PDone, st)
    /\ p_cur st = length (write_request mt host path (query_text qs) cs hs body)
    /\ m_method (p_msg st) = mi
    /\ m_resource (p_msg st) = slash path ++ path
    /\ m_version (p_msg st) = 1%N
    /\ m_query (p_msg st) = capply _ same_key [] (map (fun p : bytes * bytes => CIns p) qs)
    /\ m_cookies (p_msg st) = capply _ same_pair [] (map (fun p : bytes * bytes => CIns p) cs)
    /\ m_raw (p_msg st) = capply _ same_ci []
         (map (fun h : bytes * bytes => CIns h)
              ((list_of_string "Cookie", cookie_text cs) :: hs
               ++ [(list_of_string "User-Agent", ua); (list_of_string "Host", host)] ++ cl_raw body))
    /\ m_body (p_msg st) = body.
Proof.
  intros Hm Hr Hq Hcs Hhs Hhost Hua Hh Hlen.
  destruct (client_request_roundtrip typed_other set_cookie mt mi host path qs cs hs body Hm Hr Hq Hcs Hhs Hhost Hua Hh Hlen) as [st [H1 [H2 H3]]].
  exists st. split; [exact H1|]. split; [exact H2|]. rewrite H3. unfold set_body. cbn [m_method m_resource m_version m_query m_cookies m_raw m_body].
  destruct (field_scalars mi (slash path ++ path) host body qs cs hs) as [F1 [F2 [F3 _]]].
  repeat split; try assumption.
  - apply field_query.
  - apply field_cookies.
  - apply field_raw.
Qed.

(* when the keys are pairwise different the first-wins collection is the list itself *)
Lemma capply_distinct {A} (same : A -> A -> bool) : forall (l acc : list A),
  (forall a b, In a (acc ++ l) -> In b (acc ++ l) -> same a b = true -> a = b) -> NoDup (acc ++ l) ->
  capply A same acc (map (fun a => CIns a) l) = acc ++ l.
Proof.
  induction l as [|x l IH]; intros acc Hs Hn; [rewrite app_nil_r; reflexivity|].
  cbn [map]. unfold capply. cbn [fold_left capply1]. fold (capply A same).
  assert (Hm : cmem A same x acc = false).
  { unfold cmem. apply not_true_is_false. intros Hex. apply existsb_exists in Hex. destruct Hex as [y [Hy Hxy]].
    assert (x = y) by (apply Hs; [apply in_or_app; right; left; reflexivity|apply in_or_app; left; exact Hy|exact Hxy]).
    subst y. apply NoDup_remove_2 in Hn. apply Hn. apply in_or_app. left. exact Hy. }
  rewrite Hm. replace (acc ++ x :: l) with ((acc ++ [x]) ++ l) in * by (rewrite <- app_assoc; reflexivity).
  apply IH; assumption.
Qed.

(* ================= server -> client: ResponseWriter output parsed by the response parser ================= *)

Section AnyMessage.
  Variable typed_other : N -> bytes -> option err.
  Variable set_cookie : bytes -> option (bytes * bytes).

  (* a message = first line, header lines, blank line, body; the first line is any text the line step settles on *)
  Theorem message_parses_back k first feffs ls body :
    (forall rest, line_step k (first ++ rest) = ASettled FNext (length first) feffs) ->
    Forall (ok_line typed_other set_cookie) ls ->
    let m := apply msg_init (feffs ++ flat_map snd ls) in
    m_body m = [] -> body_framed m body ->
    let text := first ++ flat_map (fun l => header_line (fst l)) ls ++ crlf ++ body in
    exists st, whole typed_other set_cookie k text = (PDone, st) /\ p_msg st = set_body m body /\ p_cur st = length text.
  Proof.
    intros Hfirst Hl m Hb0 [Hte Hcl] text.
    unfold whole, feed_raw, pstate_init. cbn [p_step p_buf p_cur p_msg p_bs app].
    rewrite (parse0_settled typed_other set_cookie k _ 0 msg_init bstate_init (length first) feffs) by (cbn [skipn]; apply Hfirst).
    rewrite (parse1_settled typed_other set_cookie _ _ _ _ (length (flat_map (fun l => header_line (fst l)) ls) + 2) (flat_map snd ls)).
    2:{ cbn [Nat.add]. unfold text. rewrite skipn_len_app. apply headers_parse. exact Hl. }
    rewrite <- apply_app. fold m.
    unfold parse2. cbn [p_msg p_bs p_buf p_cur Nat.add].
    assert (Hskip : skipn (length first + (length (flat_map (fun l => header_line (fst l)) ls) + 2)) text = body).
    { unfold text. rewrite app_assoc, app_assoc.
      replace (length first + (length (flat_map (fun l => header_line (fst l)) ls) + 2))
        with (length ((first ++ flat_map (fun l => header_line (fst l)) ls) ++ crlf)) by (rewrite !app_length; cbn; lia).
      apply skipn_len_app. }
    rewrite Hskip. unfold body_step. rewrite Hte.
    assert (Hlen : length text = length first + (length (flat_map (fun l => header_line (fst l)) ls) + 2) + length body).
    { unfold text. rewrite !app_length. cbn. lia. }
    destruct body as [|b0 body'].
    - destruct Hcl as [Hnone | [c [Hc Hv]]].
      + rewrite Hnone. eexists. split; [reflexivity|]. cbn [p_msg p_cur]. rewrite Hb0. split; [reflexivity|]. rewrite Hlen. cbn. lia.
      + rewrite Hc. unfold body_cl. rewrite Hv. cbn [bstate_init b_read length N.of_nat].
        replace (0 <? 0)%N with false by reflexivity.
        eexists. split; [reflexivity|]. cbn [p_msg p_cur]. rewrite Hb0. cbn. split; [reflexivity|]. rewrite Hlen. cbn. lia.
    - destruct Hcl as [c [Hc Hv]]. rewrite Hc. unfold body_cl. rewrite Hv. cbn [bstate_init b_read].
      replace (0 <? 0)%N with false by reflexivity. rewrite N.ltb_irrefl. rewrite Nat2N.id, firstn_all.
      eexists. split; [reflexivity|]. cbn [p_msg p_cur]. rewrite Hb0. cbn [app]. split; [reflexivity|]. rewrite Hlen. lia.
  Qed.
End AnyMessage.

(* ---------------- status line ---------------- *)

Notation rsrun := (arun rs eff fin rs_delta rs_final).

Lemma rs_version acc n rest :
  rsrun (RS_Ver []) acc n (list_of_string "HTTP/1.1 " ++ rest) = rsrun (RS_Code []) acc (n + 9) rest.
Proof.
  cbn [list_of_string app].
  repeat (rewrite arun_cons by reflexivity; cbn [rs_delta fst snd length Nat.ltb Nat.leb]; rewrite ?app_nil_r).
  cbn. f_equal. lia.
Qed.

Lemma rs_code_scan w racc acc n rest : Forall (okc [" "%char]) w ->
  rsrun (RS_Code racc) acc n (w ++ rest) = rsrun (RS_Code (rev w ++ racc)) acc (n + length w) rest.
Proof.
  apply (arun_scan _ _ _ rs_delta rs_final RS_Code); [reflexivity|].
  intros r c H. cbn [rs_delta]. rewrite (Forall_inv H). reflexivity.
Qed.

Lemma rs_reason : forall w b acc n rest, Forall (okc [c_lf]) w ->
  rsrun (RS_Reason b) acc n (w ++ c_cr :: c_lf :: rest) = ASettled FNext (n + length w + 2) acc.
Proof.
  induction w as [|c w IH]; intros b acc n rest H.
  - cbn [app]. rewrite arun_cons by reflexivity. cbn [rs_delta].
    replace (ascii_eqb c_cr c_lf) with false by reflexivity. rewrite andb_false_r. cbn [fst snd].
    rewrite arun_cons by reflexivity. cbn [rs_delta]. replace (ascii_eqb c_cr c_cr) with true by reflexivity.
    replace (ascii_eqb c_lf c_lf) with true by reflexivity. cbn [andb fst snd]. rewrite !app_nil_r.
    rewrite arun_final with (f := FNext) by reflexivity. f_equal. cbn. lia.
  - cbn [app]. rewrite arun_cons by reflexivity. cbn [rs_delta]. rewrite (Forall_inv (Forall_inv H)), andb_false_r. cbn [fst snd].
    rewrite app_nil_r. rewrite IH by exact (Forall_inv_tail H). f_equal. cbn [length]. lia.
Qed.

Lemma reason_lacks_lf code : Forall (okc [c_lf]) (reason_of code).
Proof.
  assert (T : forallb (fun e : N * string * string => forallb (fun c => negb (ascii_eqb c c_lf)) (list_of_string (snd e))) status_codes = true)
    by (vm_compute; reflexivity).
  unfold reason_of. destruct (find _ status_codes) as [e|] eqn:E; [|constructor].
  apply find_some in E. destruct E as [Hin _]. rewrite forallb_forall in T. specialize (T e Hin).
  rewrite forallb_forall in T. apply Forall_forall. intros c Hc. constructor; [|constructor].
  specialize (T c Hc). destruct (ascii_eqb c c_lf); [discriminate|reflexivity].
Qed.

Lemma digits_not_space n : Forall (okc [" "%char]) (print_dec n).
Proof.
  destruct (print_dec_spec n) as [_ [Hall _]]. eapply Forall_impl; [|exact Hall].
  intros c [d Hd]. constructor; [|constructor]. apply (digit_not_special c d Hd).
Qed.

Lemma wrap_small z : (0 <= z < 2147483648)%Z -> wrap_int32 z = z.
Proof. intros H. unfold wrap_int32. rewrite Z.mod_small by lia. lia. Qed.

Lemma status_line_parses code rest : (code < 2147483648)%N ->
  line_step KResponse (status_line code ++ rest) = ASettled FNext (length (status_line code)) [SetCode (Z.of_N code)].
Proof.
  intros Hc. unfold line_step, status_line. rewrite <- !app_assoc. rewrite rs_version.
  rewrite rs_code_scan by apply digits_not_space. rewrite app_nil_r. cbn [app].
  rewrite arun_cons by reflexivity. cbn [rs_delta]. replace (ascii_eqb " " " ") with true by reflexivity.
  rewrite rev_involutive. rewrite strtol_print_dec by (unfold LONG_MAX; lia). cbn [fst snd app].
  rewrite wrap_small by lia. unfold crlf. rewrite <- app_assoc. cbn [app].
  rewrite rs_reason by apply reason_lacks_lf. f_equal.
  rewrite !app_length. cbn [length list_of_string]. rewrite !app_length. cbn [length]. lia.
Qed.

(* ---------------- what ResponseWriter::putOnWire writes ---------------- *)

Section Server.
  Variable typed_other : N -> bytes -> option err.
  Variable set_cookie : bytes -> option (bytes * bytes).
  Notation process := (process_header typed_other set_cookie).

  (* a Set-Cookie value the cookie parser reads as (name, value) *)
  Definition cookie_ok (c : bytes) (kv : bytes * bytes) : Prop := wf_value c /\ set_cookie c = Some kv.

  Lemma process_set_cookie c kv : set_cookie c = Some kv ->
    process (list_of_string "Set-Cookie") c = (H_LineStart, [AddCookie (fst kv) (snd kv); AddRaw (list_of_string "Set-Cookie") c]).
  Proof.
    intros H. unfold process_header.
    replace (bytes_eqb (lower_bytes (list_of_string "Set-Cookie")) (list_of_string "cookie")) with false by (vm_compute; reflexivity).
    replace (bytes_eqb (lower_bytes (list_of_string "Set-Cookie")) (list_of_string "set-cookie")) with true by (vm_compute; reflexivity).
    rewrite H. destruct kv. reflexivity.
  Qed.

  Definition set_cookie_line (ck : bytes * (bytes * bytes)) : (bytes * bytes) * list eff :=
    ((list_of_string "Set-Cookie", fst ck), [AddCookie (fst (snd ck)) (snd (snd ck)); AddRaw (list_of_string "Set-Cookie") (fst ck)]).

  Definition server_lines (hs : list (bytes * bytes)) (cks : list (bytes * (bytes * bytes))) (body : bytes) : list ((bytes * bytes) * list eff) :=
    map plain_line hs ++ map set_cookie_line cks ++ [typed_line "Content-Length" (print_dec (N.of_nat (length body)))].

  Lemma render_response_is_text code hs cks body :
    render_response code hs (map fst cks) body
    = status_line code ++ flat_map (fun l => header_line (fst l)) (server_lines hs cks body) ++ crlf ++ body.
  Proof.
    unfold render_response, server_lines. rewrite !flat_map_app, plain_lines_text.
    f_equal. rewrite <- !app_assoc. f_equal.
    assert (E : flat_map (fun c => list_of_string "Set-Cookie: " ++ c ++ crlf) (map fst cks)
                = flat_map (fun l : (bytes * bytes) * list eff => header_line (fst l)) (map set_cookie_line cks)).
    { induction cks as [|ck l IH]; [reflexivity|]. cbn [map flat_map set_cookie_line fst]. rewrite IH.
      unfold header_line. cbn [fst snd list_of_string app]. reflexivity. }
    rewrite E. f_equal.
    cbn [flat_map typed_line fst]. unfold header_line. cbn [fst snd list_of_string app]. rewrite app_nil_r.
    rewrite <- !app_assoc. reflexivity.
  Qed.

  Lemma server_lines_ok hs cks body :
    Forall plain_header hs -> Forall (fun ck => cookie_ok (fst ck) (snd ck)) cks ->
    (N.of_nat (length body) <= 18446744073709551615)%N ->
    Forall (ok_line typed_other set_cookie) (server_lines hs cks body).
  Proof.
    intros Hhs Hck Hlen. unfold server_lines. apply Forall_app. split; [|apply Forall_app; split].
    - rewrite Forall_map. eapply Forall_impl; [|exact Hhs]. intros h [H1 [H2 [H3 H4]]].
      split; [exact H1|]. split; [exact H2|]. apply process_plain; assumption.
    - rewrite Forall_map. eapply Forall_impl; [|exact Hck]. intros [c kv] [Hv Hs]. cbn [fst snd] in *.
      split; [split; [discriminate|repeat constructor]|]. split; [exact Hv|]. cbn [set_cookie_line fst snd]. apply process_set_cookie. exact Hs.
    - constructor; [|constructor].
      split; [split; [discriminate|repeat constructor]|]. split; [apply print_dec_wf|].
      apply process_typed; [split; vm_compute; reflexivity|vm_compute; reflexivity|].
      unfold typed_check. replace (match id_content_length with Some i => (i =? idx "Content-Length")%N | None => false end) with true by (vm_compute; reflexivity).
      unfold cl_check. pose proof (stoull_print_dec (N.of_nat (length body)) [] Hlen I) as E. rewrite app_nil_r in E. rewrite E. reflexivity.
  Qed.
  Lemma untyped_server_prefix hs cks : forallb untyped (flat_map snd (map plain_line hs ++ map set_cookie_line cks)) = true.
  Proof.
    rewrite flat_map_app, forallb_app. apply andb_true_iff. split.
    - induction hs as [|h l IH]; [reflexivity|]. cbn [map flat_map plain_line snd app forallb untyped andb]. exact IH.
    - induction cks as [|c l IH]; [reflexivity|]. cbn [map flat_map set_cookie_line snd app forallb untyped andb]. exact IH.
  Qed.

  Lemma server_typed code hs cks body :
    m_typed (apply msg_init ([SetCode (Z.of_N code)] ++ flat_map snd (server_lines hs cks body)))
    = [(idx "Content-Length", print_dec (N.of_nat (length body)))].
  Proof.
    rewrite apply_typed_only_effs. cbn [m_typed msg_init]. unfold server_lines.
    rewrite app_assoc, flat_map_app, app_assoc, map_app, capply_app.
    rewrite (capply_untyped ([SetCode (Z.of_N code)] ++ flat_map snd (map plain_line hs ++ map set_cookie_line cks)))
      by (rewrite forallb_app, untyped_server_prefix; reflexivity).
    reflexivity.
  Qed.

  Lemma server_body_framed code hs cks body : (N.of_nat (length body) <= 18446744073709551615)%N ->
    body_framed (apply msg_init ([SetCode (Z.of_N code)] ++ flat_map snd (server_lines hs cks body))) body.
  Proof.
    intros Hlen. unfold body_framed, typed_get. rewrite server_typed.
    replace id_transfer_encoding with (Some (idx "Transfer-Encoding")) by (vm_compute; reflexivity).
    replace id_content_length with (Some (idx "Content-Length")) by (vm_compute; reflexivity).
    cbn [find fst snd].
    replace (idx "Content-Length" =? idx "Transfer-Encoding")%N with false by (vm_compute; reflexivity).
    rewrite N.eqb_refl. cbn [snd].
    assert (Hv : cl_value (print_dec (N.of_nat (length body))) = N.of_nat (length body)).
    { unfold cl_value. pose proof (stoull_print_dec (N.of_nat (length body)) [] Hlen I) as E. rewrite app_nil_r in E. rewrite E. reflexivity. }
    split; [reflexivity|]. destruct body as [|b0 body'].
    - right. eexists. split; [reflexivity|]. exact Hv.
    - eexists. split; [reflexivity|]. exact Hv.
  Qed.

  (* ---- C02, server -> client (fixed-length responses) ---- *)
  Theorem server_response_roundtrip code hs cks body :
    (code < 2147483648)%N -> Forall plain_header hs -> Forall (fun ck => cookie_ok (fst ck) (snd ck)) cks ->
    (N.of_nat (length body) <= 18446744073709551615)%N ->
    exists st,
      whole typed_other set_cookie KResponse (render_response code hs (map fst cks) body) = (PDone, st)
      /\ p_cur st = length (render_response code hs (map fst cks) body)
      /\ p_msg st = set_body (apply msg_init ([SetCode (Z.of_N code)] ++ flat_map snd (server_lines hs cks body))) body.
  Proof.
    intros Hc Hhs Hck Hlen. rewrite render_response_is_text.
    destruct (message_parses_back typed_other set_cookie KResponse (status_line code) [SetCode (Z.of_N code)] (server_lines hs cks body) body)
      as [st [H1 [H2 H3]]].
    - intros rest. apply status_line_parses. exact Hc.
    - apply server_lines_ok; assumption.
    - rewrite apply_body. reflexivity.
    - apply server_body_framed. exact Hlen.
    - exists st. repeat split; assumption.
  Qed.
End Server.

Section ResponseFields.
  Variable code : N.
  Variable body : bytes.
  Variable hs : list (bytes * bytes).
  Variable cks : list (bytes * (bytes * bytes)).
  Let effs := [SetCode (Z.of_N code)] ++ flat_map snd (server_lines hs cks body).
  Let m := apply msg_init effs.

  Definition sc_effs (ck : bytes * (bytes * bytes)) : list eff := snd (set_cookie_line ck).

  Lemma server_effs_split : effs =
    [SetCode (Z.of_N code)] ++ flat_map snd (map plain_line hs) ++ flat_map sc_effs cks
    ++ [AddTyped (idx "Content-Length") (print_dec (N.of_nat (length body)));
        AddRaw (list_of_string "Content-Length") (print_dec (N.of_nat (length body)))].
  Proof.
    unfold effs, server_lines. rewrite !flat_map_app. cbn [flat_map typed_line snd app]. repeat f_equal.
    induction cks as [|c l IH]; [reflexivity|]. cbn [map flat_map]. rewrite IH. reflexivity.
  Qed.

  Lemma response_cookies : m_cookies m = capply _ same_pair [] (map (fun ck : bytes * (bytes * bytes) => CIns (snd ck)) cks).
  Proof.
    unfold m. rewrite (apply_proj _ m_cookies (fun x e => capply1 _ same_pair x (v_cookies e))) by reflexivity.
    rewrite <- (fold_left_map (capply1 _ same_pair) v_cookies). fold (capply _ same_pair (m_cookies msg_init) (map v_cookies effs)).
    rewrite capply_view, server_effs_split. rewrite !flat_map_app.
    rewrite (keep_plain_none v_cookies) by reflexivity. cbn [flat_map keep v_cookies app msg_init m_cookies].
    rewrite app_nil_r. f_equal.
    induction cks as [|[c [k v]] l IH]; [reflexivity|]. cbn [flat_map sc_effs set_cookie_line snd fst app map]. rewrite IH. reflexivity.
  Qed.

  Lemma response_raw : m_raw m = capply _ same_ci []
    (map (fun h : bytes * bytes => CIns h)
         (hs ++ map (fun ck : bytes * (bytes * bytes) => (list_of_string "Set-Cookie", fst ck)) cks
          ++ [(list_of_string "Content-Length", print_dec (N.of_nat (length body)))])).
  Proof.
    unfold m. rewrite (apply_proj _ m_raw (fun x e => capply1 _ same_ci x (v_raw e))) by reflexivity.
    rewrite <- (fold_left_map (capply1 _ same_ci) v_raw). fold (capply _ same_ci (m_raw msg_init) (map v_raw effs)).
    rewrite capply_view, server_effs_split. rewrite !flat_map_app.
    rewrite keep_plain_raw. cbn [flat_map keep v_raw app msg_init m_raw]. rewrite !map_app. f_equal. f_equal.
    f_equal.
    induction cks as [|[c [k v]] l IH]; [reflexivity|]. cbn [flat_map sc_effs set_cookie_line snd fst app map keep v_raw]. rewrite IH. reflexivity.
  Qed.

  Lemma response_code : m_code m = Z.of_N code.
  Proof.
    unfold m. rewrite (apply_proj _ m_code (fun x e => rapply1 _ x (v_code e))) by reflexivity. rewrite server_effs_split.
    rewrite !fold_left_app. cbn [fold_left rapply1 v_code].
    rewrite (fold_nop v_code (flat_map sc_effs cks)).
    2:{ induction cks as [|c l IH]; [constructor|]. cbn [flat_map sc_effs set_cookie_line snd app]. constructor; [reflexivity|]. constructor; [reflexivity|exact IH]. }
    rewrite (fold_nop v_code (flat_map snd (map plain_line hs))) by (apply nop_plain; reflexivity).
    reflexivity.
  Qed.
End ResponseFields.

Theorem server_response_fields typed_other set_cookie code hs cks body :
  (code < 2147483648)%N -> Forall plain_header hs -> Forall (fun ck => cookie_ok set_cookie (fst ck) (snd ck)) cks ->
  (N.of_nat (length body) <= 18446744073709551615)%N ->
  exists st,
    whole typed_other set_cookie KResponse (render_response code hs (map fst cks) body) = (PDone, st)
    /\ p_cur st = length (render_response code hs (map fst cks) body)
    /\ m_code (p_msg st) = Z.of_N code
    /\ m_cookies (p_msg st) = capply _ same_pair [] (map (fun ck : bytes * (bytes * bytes) => CIns (snd ck)) cks)
    /\ m_raw (p_msg st) = capply _ same_ci []
         (map (fun h : bytes * bytes => CIns h)
              (hs ++ map (fun ck : bytes * (bytes * bytes) => (list_of_string "Set-Cookie", fst ck)) cks
               ++ [(list_of_string "Content-Length", print_dec (N.of_nat (length body)))]))
    /\ m_body (p_msg st) = body.
Proof.
  intros Hc Hhs Hck Hlen.
  destruct (server_response_roundtrip typed_other set_cookie code hs cks body Hc Hhs Hck Hlen) as [st [H1 [H2 H3]]].
  exists st. split; [exact H1|]. split; [exact H2|]. rewrite H3. unfold set_body. cbn [m_code m_cookies m_raw m_body].
  repeat split; [apply response_code|apply response_cookies|apply response_raw].
Qed.
