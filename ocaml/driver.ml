(* Model driver: reads one case per line on stdin, prints one canonical result line per case.
   usage: driver <area> *)
module M = Model
open Pvlib

let base64_case (toks : string list) : string =
  match toks with
  | [ "E"; h ] ->
    let bs = bytes_of_hex h in
    let e = M.encode bs in
    let r = M.rfc4648 bs in
    Printf.sprintf "E %s rfc=%s" (hex_of_bytes e) (if e = r then "same" else hex_of_bytes r)
  | [ "D"; h ] ->
    (match M.decode (bytes_of_hex h) with
     | M.Inr o -> "D ok " ^ hex_of_bytes o
     | M.Inl M.ErrShort | M.Inl M.ErrNotMult4 -> "D err runtime"
     | M.Inl M.ErrRange -> "D err range")
  | [ "B"; u; p ] ->
    (match M.set_basic (bytes_of_hex u) (bytes_of_hex p) with
     | None -> "B seterr"
     | Some v ->
       let show = function M.CredErr -> "err" | M.CredOk s -> hex_of_bytes s in
       Printf.sprintf "B %s %s %s" (hex_of_bytes v) (show (M.get_basic false v)) (show (M.get_basic true v)))
  | [ "G"; v ] ->
    let v = bytes_of_hex v in
    let show = function M.CredErr -> "err" | M.CredOk s -> hex_of_bytes s in
    Printf.sprintf "G %s %s" (show (M.get_basic false v)) (show (M.get_basic true v))
  | _ -> "BADCASE"

(* ---------------- parser (C01, C03, C04, C14) ---------------- *)

let canon_common (m : M.msg) : string =
  let ck = List.map (fun (k, v) -> hex_of_bytes k ^ "=" ^ hex_of_bytes v) m.M.m_cookies in
  let typed = List.map (fun (id, _) -> String.concat "" (List.map (fun a -> String.make 1 (Char.chr (int_of_ascii a))) (M.reg_name id))) m.M.m_typed in
  let raw = List.map (fun (k, v) -> hex_of_bytes (M.lower_bytes k) ^ "=" ^ hex_of_bytes v) m.M.m_raw in
  let cl = match M.typed_get m M.id_content_length with
    | Some v -> " cl=" ^ decimal_of_n (M.cl_value v) | None -> "" in
  let te = match M.typed_get m M.id_transfer_encoding with
    | Some v -> " te=" ^ (if M.te_is_chunked v then "chunked" else "other") | None -> "" in
  Printf.sprintf " ck=%s t=%s%s%s raw=%s b=%s" (join_sorted ck) (join_sorted typed) cl te (join_sorted raw)
    (hex_of_bytes m.M.m_body)

let canon_msg (req : bool) (m : M.msg) : string =
  if req then
    let q = List.map (fun (k, v) -> hex_of_bytes k ^ "=" ^ hex_of_bytes v) m.M.m_query in
    Printf.sprintf " m=%d r=%s q=%s v=%d%s" (int_of_n m.M.m_method) (hex_of_bytes m.M.m_resource)
      (join_sorted q) (int_of_n m.M.m_version) (canon_common m)
  else
    Printf.sprintf " c=%s v=%d%s" (decimal_of_z m.M.m_code) (int_of_n m.M.m_version) (canon_common m)

let parser_case (toks : string list) : string =
  match toks with
  | "PV" :: _ -> "PV"
  | mode :: k :: maxsz :: segs when mode = "P" || mode = "Q" ->
    let req = (k = "R") in
    let kind = if req then M.KRequest else M.KResponse in
    let maxsz = nat_of_int (int_of_string maxsz) in
    let b = Buffer.create 256 in
    Buffer.add_string b mode;
    let st = ref M.pstate_init in
    let finished = ref false in
    let stop = ref false in
    List.iter (fun seg ->
        if !stop then ()
        else if seg = "|" then (Buffer.add_string b " |"; finished := false)
        else if !finished then (if mode = "P" then stop := true)
        else begin
          (match M.feed maxsz !st (bytes_of_hex seg) with
           | None -> Buffer.add_string b " F"; finished := true
           | Some st1 ->
             let (r, st2) = M.parse_inst kind st1 in
             st := st2;
             (match r with
              | M.PAgain -> Buffer.add_string b " A"
              | M.PDone -> Buffer.add_string b (" D" ^ canon_msg req st2.M.p_msg); finished := true
              | M.PErr (M.EHttp c) -> Buffer.add_string b (" E" ^ decimal_of_n c); finished := true
              | M.PErr M.EExc -> Buffer.add_string b " X"; finished := true));
          if !finished && mode = "Q" then st := M.pstate_init
        end) segs;
    Buffer.contents b
  | _ -> "BADCASE"

(* ---------------- router (C10) ---------------- *)

let method_str = [| "OPTIONS"; "GET"; "POST"; "HEAD"; "PUT"; "PATCH"; "DELETE"; "TRACE"; "CONNECT" |]

let router_case (toks : string list) : string =
  match toks with
  | "T" :: rest ->
    let b = Buffer.create 256 in
    Buffer.add_string b "T";
    let table = ref [] in
    let notfound = ref false in
    let rec ops = function
      | "Q" :: qs -> qs
      | [] -> []
      | "N" :: r -> notfound := true; ops r      (* a not-found handler is installed: it answers instead of the built-in 404 *)
      | op :: r ->
        let parts = String.split_on_char ':' (String.sub op 1 (String.length op - 1)) in
        (match op.[0], parts with
         | '+', [ m; res; h ] ->
           (match M.add_route !table (n_of_int (int_of_string m)) (bytes_of_hex res) (n_of_int (int_of_string h)) with
            | Some t -> table := t; Buffer.add_string b " ok"
            | None -> Buffer.add_string b " throw")
         | '-', [ m; res ] ->
           (match M.remove_route !table (n_of_int (int_of_string m)) (bytes_of_hex res) with
            | Some t -> table := t; Buffer.add_string b " ok"
            | None -> Buffer.add_string b " throw")
         | _ -> Buffer.add_string b " BADOP");
        ops r in
    let qs = ops rest in
    Buffer.add_string b " Q";
    List.iter (fun q ->
        match String.split_on_char ':' q with
        | [ m; path ] ->
          (match M.route !table (n_of_int (int_of_string m)) (bytes_of_hex path) with
           | M.Match (h, ps, ss) ->
             let ps = List.sort compare (List.map (fun (k, v) -> hex_of_bytes k ^ "=" ^ hex_of_bytes v) ps) in
             Buffer.add_string b (Printf.sprintf " M%d(%s)[%s]" (int_of_n h) (String.concat "," ps)
                                    (String.concat "," (List.map hex_of_bytes ss)))
           | M.NotAllowed ms ->
             let ms = List.sort compare (List.map (fun m -> method_str.(int_of_n m)) ms) in
             Buffer.add_string b (" 405(" ^ String.concat "," ms ^ ")")
           | M.NotFound -> Buffer.add_string b (if !notfound then " 404nf" else " 404"))
        | _ -> Buffer.add_string b " BADQ") qs;
    Buffer.contents b
  | _ -> "BADCASE"

(* ---------------- queue (C13) ---------------- *)

let queue_case (toks : string list) : string =
  match toks with
  | [ mode; pushes; "S"; sched ] when mode = "K" || mode = "J" ->
    (* K: the consumer pops until null (the library's loops); J: it takes ONE entry per wake-up and goes back to its event
       loop.  One grant of the harness' consumer runs from one yield point to the next: with an entry in hand the caller's
       decision (pop again / stop) is part of the same grant. *)
    let pushes = List.map int_of_string (List.filter (fun x -> x <> "") (String.split_on_char ',' pushes)) in
    let progs = List.mapi (fun i n -> List.init n (fun j -> n_of_int ((i + 1) * 100 + j))) pushes in
    let np = List.length pushes in
    let st = ref (M.init progs) in
    let step a = st := M.run0 [ a ] !st in
    let consumer () =
      step M.Consumer;
      (match (!st).M.cst with M.CGot -> step (if mode = "K" then M.Consumer else M.ConsumerStop) | _ -> ()) in
    String.iter (fun c -> let a = Char.code c - 48 in
                  if a = 0 then consumer ()
                  else if a >= 1 && a <= np then step (M.Producer (nat_of_int (a - 1)))) sched;
    List.iteri (fun i n -> for _ = 1 to 3 * n + 2 do step (M.Producer (nat_of_int i)) done) pushes;
    let total = List.fold_left ( + ) 0 pushes in
    for _ = 1 to 3 * (total + 3) do consumer () done;
    let st = !st in
    let outs = List.map (fun v -> string_of_int (int_of_n v)) st.M.out in
    let left = List.length st.M.items - int_of_nat st.M.popped in
    Printf.sprintf "out=%s left=%d parked=%d pending=%d" (if outs = [] then "-" else String.concat "," outs) left
      (match st.M.cst with M.COut -> 1 | _ -> 0) (if int_of_nat st.M.ev > 0 then 1 else 0)
  | _ -> "BADCASE"

(* ---------------- promise core under interleaving (C12) ---------------- *)

let pconc_case (toks : string list) : string =
  match toks with
  | [ "Y"; cfg; sched ] ->
    let cfg = if cfg.[0] = 'r' then String.sub cfg 1 (String.length cfg - 1) else cfg in
    let ths = match cfg with
      | "base" -> M.cfg_base | "derived" -> M.cfg_derived | "both" -> M.cfg_both | _ -> M.cfg_two_derived in
    let n = List.length ths in
    let acts = ref [] in
    String.iter (fun c -> let a = Char.code c - 48 in if a >= 0 && a < n then acts := nat_of_int a :: !acts) sched;
    let st = ref (M.run1 true (List.rev !acts) (M.init0 ths)) in
    let rounds = ref 0 in
    while not (M.finished !st) && !rounds < 400 do
      for i = 0 to n - 1 do st := M.grant true !st (nat_of_int i) done;
      incr rounds
    done;
    let c k = int_of_nat (M.count (nat_of_int k) (!st).M.log) in
    Printf.sprintf "Y f=%d c1=%d c2=%d c3=%d err=%d wrong=0" (c 0) (c 1) (c 2) (c 3) (if (!st).M.err0 then 1 else 0)
  | "F" :: _ -> "F bad=0"
  | _ -> "BADCASE"

(* ---------------- promise API scripts (C11) ---------------- *)

let promise_case (toks : string list) : string =
  match toks with
  | "S" :: ops ->
    let parse o =
      let body = String.sub o 1 (String.length o - 1) in
      match o.[0] with
      | 'N' -> M.PNew
      | 'T' -> (match String.split_on_char ':' body with
          | [ src; vo; ts ] ->
            let h = if ts = "t" then M.HThrow else M.HSwallow and src = nat_of_int (int_of_string src) in
            (match vo with
             | "p" -> M.PThenP (src, M.MPending, h)
             | "q" -> M.PThenP (src, M.MResolved, h)
             | "r" -> M.PThenP (src, M.MRejected, h)
             | _ -> M.PThen (src, vo = "v", h))
          | _ -> M.PNew)
      | 'M' -> M.PNew
      | 'Q' -> M.PResolveV (nat_of_int (int_of_string body))
      | 'I' -> (match String.split_on_char ':' (String.sub body 1 (String.length body - 1)) with
          | [ k; v ] -> M.PInner (nat_of_int (int_of_string k), body.[0] = 'R', n_of_int (int_of_string v))
          | _ -> M.PNew)
      | 'R' -> (match String.split_on_char ':' body with [ p; v ] -> M.PResolve (nat_of_int (int_of_string p), n_of_int (int_of_string v)) | _ -> M.PNew)
      | 'J' -> (match String.split_on_char ':' body with [ p; v ] -> M.PReject (nat_of_int (int_of_string p), n_of_int (int_of_string v)) | _ -> M.PNew)
      | 'A' | 'V' -> M.PAll (List.map (fun x -> nat_of_int (int_of_string x)) (String.split_on_char ',' body))
      | _ -> M.PAny (List.map (fun x -> nat_of_int (int_of_string x)) (String.split_on_char ',' body)) in
    (* X<p> (the program drops its handles to promise p) has no counterpart in the model, which has no lifetimes *)
    let st = M.run_prog (List.map parse (List.filter (fun o -> o.[0] <> 'X') ops)) in
    let ev = function
      | M.ERes (k, v) -> Printf.sprintf " %dR%s" (int_of_nat k) (String.concat "." (List.map (fun x -> string_of_int (int_of_n x)) v))
      | M.ERej (k, e) -> Printf.sprintf " %dJ%d" (int_of_nat k) (int_of_n e)
      | M.EErr -> " E" in
    let l = String.concat "" (List.map ev st.M.plog) in
    "S" ^ (if l = "" then " -" else l)
  | _ -> "BADCASE"

(* ---------------- addresses and ports (C19) ---------------- *)

(* libc stand-ins for the executable instance: strict dotted quads for IPv4 (canonical text is the
   value); for IPv6 the canonical text computed by the generator (Python ipaddress) is passed in *)
let strict_quad (h : M.ascii list) : M.ascii list option =
  let s = String.concat "" (List.map (fun a -> String.make 1 (Char.chr (int_of_ascii a))) h) in
  match String.split_on_char '.' s with
  | [ a; b; c; d ] ->
    let ok x = x <> "" && String.length x <= 3 && String.for_all (fun ch -> ch >= '0' && ch <= '9') x
               && (String.length x = 1 || x.[0] <> '0') && int_of_string x <= 255 in
    if ok a && ok b && ok c && ok d then Some h else None
  | _ -> None

let net_case (toks : string list) : string =
  match toks with
  | [ "A"; text; canon6 ] ->
    let pton6 _ = if canon6 = "-" then None else Some (bytes_of_hex canon6) in
    (match M.address_init strict_quad pton6 (bytes_of_hex text) with
     | None -> "A err"
     | Some a ->
       let printed = M.print_address (fun x -> x) (fun x -> x) a in
       let (fam, host) = match a.M.a_ip with M.IP4 q -> (4, q) | M.IP6 q -> (6, q) in
       let re = match M.address_init strict_quad (fun h -> if Some h = (match a.M.a_ip with M.IP6 q -> Some q | _ -> None) then Some h else pton6 h) printed with
         | Some b -> if b = a then "same" else "differs"
         | None -> "err" in
       Printf.sprintf "A ok %d %s %s %s %s" fam (hex_of_bytes host) (decimal_of_n a.M.a_port) (hex_of_bytes printed) re)
  | [ "U"; fam; port ] ->
    (* an address taken from a sockaddr reports the port it carries (print_dec . of the number), an IP built from numbers port 0 *)
    Printf.sprintf "U %s %s %s 0 0" (if fam = "4" then "1.2.3.4" else "::1") (decimal_of_n (n_of_int (int_of_string port))) port
  | [ "P"; text ] ->
    (match M.port_of_string (bytes_of_hex text) with
     | Some n -> "P ok " ^ decimal_of_n n
     | None -> "P err")
  | _ -> "BADCASE"

(* ---------------- media types (C18) ---------------- *)

let mime_fields (m : M.media) (only_keys : M.ascii list list option) : string =
  let nsubs = List.length M.mime_subtypes and nsuf = List.length M.mime_suffixes in
  let sub = match m.M.md_sub with M.SKnown i -> int_of_n i | M.SVendor -> nsubs | M.SExt -> nsubs + 1 in
  let suf = match m.M.md_suffix with M.FKnown i -> int_of_n i | M.FNone -> nsuf | M.FExt -> nsuf + 1 in
  let q = match m.M.md_q with Some v -> string_of_int (int_of_n v) | None -> "-" in
  let ps = m.M.md_params in
  let ps = List.sort_uniq compare (List.map (fun (k, v) -> hex_of_bytes k ^ "=" ^ hex_of_bytes v) ps) in
  Printf.sprintf "ok %d %d %d %s p=%s %s" (int_of_n m.M.md_top) sub suf q
    (if ps = [] then "-" else String.concat "," ps) (hex_of_bytes (M.to_string m))

let mime_case (toks : string list) : string =
  match toks with
  | [ "M"; text ] ->
    (match M.parse_media (bytes_of_hex text) with
     | M.Inr m -> "M " ^ mime_fields m None
     | M.Inl M.E415 -> "M err415"
     | M.Inl M.EUnsup -> "M UNSUPPORTED-BY-MODEL")
  | [ "R"; text; _q ] -> "R " ^ text     (* a stored, unparsed text is written as it is *)
  | "S" :: text :: q :: ps ->
    (* parse, then setQuality / setParam, then the text the value writes is parsed again *)
    let ps = List.map (fun x -> match String.split_on_char '=' x with [ k; v ] -> (bytes_of_hex k, bytes_of_hex v) | _ -> ([], [])) ps in
    (match M.parse_media (bytes_of_hex text) with
     | M.Inr m ->
       let m1 = if q = "-" then m else M.set_quality m (n_of_int (int_of_string q)) in
       let m2 = List.fold_left (fun a (k, v) -> M.set_param a k v) m1 ps in
       (match M.parse_media (M.to_string m2) with
        | M.Inr m3 -> "S " ^ mime_fields m3 (Some (List.map fst m2.M.md_params))
        | M.Inl M.E415 -> "S err415-rewritten"
        | M.Inl M.EUnsup -> "S UNSUPPORTED-BY-MODEL")
     | M.Inl M.E415 -> "S err415"
     | M.Inl M.EUnsup -> "S UNSUPPORTED-BY-MODEL")
  | "B" :: top :: sub :: suf :: q :: ps ->
    let ps = List.map (fun x -> match String.split_on_char '=' x with [ k; v ] -> (bytes_of_hex k, bytes_of_hex v) | _ -> ([], [])) ps in
    let s = M.build_string (n_of_int (int_of_string top)) (n_of_int (int_of_string sub))
        (if suf = "-" then None else Some (n_of_int (int_of_string suf)))
        (if q = "-" then None else Some (n_of_int (int_of_string q))) ps in
    (match M.parse_media s with
     | M.Inr m -> "B " ^ mime_fields m (Some (List.map fst ps))
     | M.Inl M.E415 -> "B err415"
     | M.Inl M.EUnsup -> "B UNSUPPORTED-BY-MODEL")
  | _ -> "BADCASE"

(* ---------------- cookies (C17) ---------------- *)

let z_of_int (i : int) : M.z = if i = 0 then M.Z0 else if i > 0 then M.Zpos (pos_of_int i) else M.Zneg (pos_of_int (-i))

let cookie_fields (c : M.z M.cookie) : string =
  let opt = function Some v -> "S" ^ (let h = hex_of_bytes v in if h = "-" then "-" else h) | None -> "N" in
  let ext = List.sort compare (List.map (fun (k, v) -> hex_of_bytes k ^ "=" ^ hex_of_bytes v) c.M.c_ext) in
  Printf.sprintf "%s %s %s %s %s %s %d %d e=%s" (hex_of_bytes c.M.c_name) (hex_of_bytes c.M.c_value)
    (opt c.M.c_path) (opt c.M.c_domain)
    (match c.M.c_maxage with Some n -> decimal_of_n n | None -> "N")
    (match c.M.c_expires with Some d -> "S" ^ hex_of_bytes (M.date_write d) | None -> "N")
    (if c.M.c_secure then 1 else 0) (if c.M.c_httponly then 1 else 0)
    (if ext = [] then "-" else String.concat "," ext)

let cookie_case (toks : string list) : string =
  (* dates: the Date model (DateModel.date_write; the strict reader + the range check of DateInst.dsec_of - a subset type in
     Coq, its carrier Z here) *)
  let in_range z = M.Z.leb M.date_lo z && M.Z.leb z M.date_hi in
  let date_write z = M.date_write z and date_parse t = match M.date_parse t with Some z when in_range z -> Some z | _ -> None in
  match toks with
  | [ "C"; text ] ->
    (match M.from_raw date_parse (bytes_of_hex text) with
     | Some c -> "C ok " ^ cookie_fields c
     | None -> "C err")
  | "W" :: name :: value :: path :: domain :: maxage :: expires :: secure :: httponly :: ext ->
    let o x = if x = "-" then None else Some (bytes_of_hex (String.sub x 1 (String.length x - 1))) in
    let c = { M.c_name = bytes_of_hex name; M.c_value = bytes_of_hex value; M.c_path = o path; M.c_domain = o domain;
              M.c_maxage = (if maxage = "-" then None else Some (n_of_int (int_of_string maxage)));
              M.c_expires = (if expires = "-" then None else Some (z_of_int (int_of_string expires))); M.c_secure = (secure = "1"); M.c_httponly = (httponly = "1");
              M.c_ext = List.map (fun x -> match String.split_on_char '=' x with [ k; v ] -> (bytes_of_hex k, bytes_of_hex v) | _ -> ([], [])) ext } in
    let back = match M.from_raw date_parse (M.write_cookie date_write c) with
      | Some c' -> "ok " ^ cookie_fields c' | None -> "err" in
    "W " ^ back ^ " | ok " ^ cookie_fields c
  | [ "J"; text ] ->
    (match M.jar_add_from_raw [] (bytes_of_hex text) with
     | None -> "J err"
     | Some j ->
       let ps = List.sort compare (List.map (fun (k, v) -> hex_of_bytes k ^ "=" ^ hex_of_bytes v) j) in
       let l = String.concat "" (List.map (fun x -> " " ^ x) ps) in
       "J ok" ^ l ^ " | post" ^ l)
  | _ -> "BADCASE"

(* ---------------- typed headers (C16) ---------------- *)

let str_of_bytes (b : M.ascii list) : string = String.concat "" (List.map (fun a -> String.make 1 (Char.chr (int_of_ascii a))) b)


let cc_list (ds : (M.n * M.z) list) : string =
  if ds = [] then "-" else
    String.concat "," (List.map (fun (i, d) -> let i = int_of_n i in if i >= 8 then Printf.sprintf "%d:%s" i (decimal_of_z d) else string_of_int i) ds)

let bytes_of_str (s : string) : M.ascii list = List.init (String.length s) (fun i -> ascii_of_int (Char.code s.[i]))

(* Date texts the model reads: the canonical text (39 bytes) and IMF-fixdate (29 bytes ending in " GMT"); the other forms
   date::from_stream accepts are implementation-only *)
let date_modelled (v : M.ascii list) : bool =
  let n = List.length v in
  n = 39 || (n = 29 && (let s = str_of_bytes v in String.sub s 25 4 = " GMT"))

(* text a typed header writes after parsing value v, for the modelled kinds *)
let typed_written (nm : string) (v : M.ascii list) : string option option =
  let once parse write = Some (match parse v with None -> None | Some h -> Some (hex_of_bytes (write h))) in
  match nm with
  | "connection" -> once (fun x -> Some (M.conn_parse x)) M.conn_write
  | "content-encoding" | "transfer-encoding" -> once (fun x -> Some (M.enc_parse x)) M.enc_write
  | "expect" -> once (fun x -> Some (M.expect_parse x)) M.expect_write
  | "cache-control" -> once M.cc_parse_top M.cc_write
  | "host" -> once M.host_parse M.host_write
  | "server" -> once (fun x -> Some (M.server_parse x)) M.server_write
  | "location" | "user-agent" | "authorization" | "access-control-allow-origin" | "access-control-allow-headers"
  | "access-control-expose-headers" | "access-control-allow-methods" -> once (fun x -> Some x) (fun x -> x)
  | "date" when date_modelled v -> once M.date_read M.date_write
  | _ -> None

let header_case (toks : string list) : string =
  match toks with
  | [ ("T" | "TM"); name; value ] ->
    let nm = String.lowercase_ascii (str_of_bytes (bytes_of_hex name)) in
    let v = bytes_of_hex value in
    let twice parse write =
      match parse v with
      | None -> "T err"
      | Some h -> let w1 = write h in
        (match parse w1 with
         | None -> "T err2 " ^ hex_of_bytes w1
         | Some h2 -> "T ok " ^ hex_of_bytes w1 ^ " " ^ hex_of_bytes (write h2)) in
    (match nm with
     | "connection" -> twice (fun x -> Some (M.conn_parse x)) M.conn_write
     | "content-encoding" | "transfer-encoding" -> twice (fun x -> Some (M.enc_parse x)) M.enc_write
     | "expect" -> twice (fun x -> Some (M.expect_parse x)) M.expect_write
     | "cache-control" -> twice M.cc_parse_top M.cc_write
     | "host" -> twice M.host_parse M.host_write
     | "server" -> twice (fun x -> Some (M.server_parse x)) M.server_write
     | "date" when date_modelled v -> twice M.date_read M.date_write
     | "location" | "user-agent" | "authorization" | "access-control-allow-origin" | "access-control-allow-headers"
     | "access-control-expose-headers" | "access-control-allow-methods" -> twice (fun x -> Some x) (fun x -> x)
     | _ -> "IMPL-ONLY")
  | "CC" :: ds ->
    let ds = List.map (fun x -> match String.split_on_char ':' x with
        | [ i; d ] -> (n_of_int (int_of_string i), (match n_of_decimal d with M.N0 -> M.Z0 | M.Npos p -> M.Zpos p))
        | _ -> (n_of_int (int_of_string x), M.Z0)) ds in
    let w = M.cc_write ds in
    (match M.cc_parse_top w with
     | None -> "CC " ^ hex_of_bytes w ^ " err"
     | Some back -> Printf.sprintf "CC %s %s %s" (hex_of_bytes w) (cc_list back) (hex_of_bytes (M.cc_write back)))
  | [ "CL"; n ] ->
    let w = M.cl_write (n_of_decimal n) in
    Printf.sprintf "CL %s %s" (str_of_bytes w) (decimal_of_n (M.cl_parse w))
  | [ "EN"; _; i ] -> let w = M.enc_write (n_of_int (int_of_string i)) in Printf.sprintf "EN %s %d" (hex_of_bytes w) (int_of_n (M.enc_parse w))
  | [ "CN"; i ] -> let w = M.conn_write (n_of_int (int_of_string i)) in Printf.sprintf "CN %s %d" (hex_of_bytes w) (int_of_n (M.conn_parse w))
  | [ "EX"; i ] -> let w = M.expect_write (n_of_int (int_of_string i)) in Printf.sprintf "EX %s %d" (hex_of_bytes w) (int_of_n (M.expect_parse w))
  | [ "HO"; h; p ] ->
    let w = M.host_write (bytes_of_hex h, n_of_int (int_of_string p)) in
    (match M.host_parse w with
     | None -> "HO " ^ hex_of_bytes w ^ " err"
     | Some (h2, p2) -> Printf.sprintf "HO %s %s %s" (hex_of_bytes w) (hex_of_bytes h2) (decimal_of_n p2))
  | [ "DT"; secs ] ->
    (* Date: FullDate(seconds) written (RFC 1123 form of date.h), read back by the strict reader, written again *)
    let w = M.date_write (z_of_int (int_of_string secs)) in
    (match M.date_parse w with
     | None -> "DT " ^ hex_of_bytes w ^ " err"
     | Some b -> Printf.sprintf "DT %s %s %s via=%s" (hex_of_bytes w) (decimal_of_z b) (hex_of_bytes (M.date_write b)) (decimal_of_z b))
  | [ "CQ"; top; sub; q ] ->
    (* Content-Type with a quality: the media type model of C18 (MimeModel.build_string / parse_media) *)
    let w = M.build_string (n_of_int (int_of_string top)) (n_of_int (int_of_string sub)) None (Some (n_of_int (int_of_string q))) [] in
    (match M.parse_media w with
     | M.Inr m ->
       let qs = match m.M.md_q with Some v -> string_of_int (int_of_n v) | None -> "-" in
       Printf.sprintf "CQ %s %s %s %s" (hex_of_bytes w) qs qs (hex_of_bytes (M.to_string m))
     | _ -> "CQ " ^ hex_of_bytes w ^ " err")
  | [ "AQ"; text ] ->
    (* Accept: a comma separated list of media ranges, blanks after the comma skipped (Accept::parseRaw) *)
    let txt = str_of_bytes (bytes_of_hex text) in
    let parts = List.map String.trim (String.split_on_char ',' txt) in
    let qs = List.map (fun part -> match M.parse_media (bytes_of_str part) with
        | M.Inr m -> (match m.M.md_q with Some v -> string_of_int (int_of_n v) | None -> "-")
        | _ -> "err") parts in
    Printf.sprintf "AQ %s %s" (String.concat " " qs) (hex_of_bytes (bytes_of_str (String.concat ", " parts)))
  | "SV" :: toks ->
    let ts = List.map bytes_of_hex toks in
    let w = M.server_write ts in
    let back = M.server_parse w in
    Printf.sprintf "SV %s %s %d%s" (hex_of_bytes w) (hex_of_bytes (M.server_write back)) (List.length back)
      (String.concat "" (List.map (fun t -> " " ^ hex_of_bytes t) back))
  | "LT" :: msg :: names ->
    (* typed collection of the parser model (first occurrence wins): registry index of the name, stored value, written text *)
    let st = M.feed_raw M.pstate_init (bytes_of_hex msg) in
    (match M.parse_inst M.KRequest st with
     | (M.PDone, st2) ->
       let lower b = String.lowercase_ascii (str_of_bytes b) in
       let index nm = let rec go i = if i > 80 then None else if M.reg_name (n_of_int i) <> [] && lower (M.reg_name (n_of_int i)) = nm then Some (n_of_int i) else go (i + 1) in go 0 in
       let outs = List.map (fun nmh ->
           let nm = lower (bytes_of_hex nmh) in
           match index nm with
           | None -> Some " N"
           | Some i ->
             (match M.typed_get st2.M.p_msg (Some i) with
              | None -> Some " N"
              | Some v -> (match typed_written nm v with
                  | Some (Some w) -> Some (" T" ^ w)
                  | _ -> None))) names in
       if List.mem None outs then "IMPL-ONLY"
       else "LT" ^ String.concat "" (List.map (function Some x -> x | None -> "") outs)
     | _ -> "LT notdone")
  | "L" :: msg :: names ->
    let st = M.feed_raw M.pstate_init (bytes_of_hex msg) in
    (match M.parse_inst M.KRequest st with
     | (M.PDone, st2) ->
       "L" ^ String.concat "" (List.map (fun nmh ->
           match M.hdr_lookup st2.M.p_msg.M.m_raw (bytes_of_hex nmh) with
           | Some v -> " S" ^ hex_of_bytes v | None -> " N") names)
     | _ -> "L notdone")
  | _ -> "BADCASE"

(* ---------------- transport write path (C06, C07) ---------------- *)

let transport_case (toks : string list) : string =
  match toks with
  | "X" :: _thread :: sizes :: rest ->
    (* a size followed by 'm' is a write issued with MSG_MORE: flags are not in the model (the harness's more= field is judged by the oracle) *)
    let strip_m x = if x <> "" && x.[String.length x - 1] = 'm' then String.sub x 0 (String.length x - 1) else x in
    let sizes = List.map (fun x -> int_of_string (strip_m x)) (List.filter (fun x -> x <> "") (String.split_on_char ',' sizes)) in
    let script = match rest with
      | [ sc ] -> List.map (fun x -> if x.[0] = 'w' then M.WouldBlock else M.Acc (nat_of_int (int_of_string (String.sub x 1 (String.length x - 1)))))
                    (List.filter (fun x -> x <> "") (String.split_on_char ',' sc))
      | _ -> [] in
    let total = List.fold_left ( + ) 0 sizes in
    (* after the script every call is passed through: the kernel accepts everything *)
    let pass = List.init (List.length sizes + 2) (fun _ -> M.Acc (nat_of_int (total + 1))) in
    let bufs = List.map (fun n -> List.init n (fun _ -> ascii_of_int 97)) sizes in
    let st = M.events (nat_of_int (List.length script + List.length sizes + 4)) (M.issue bufs) (script @ pass) in
    let vals = List.mapi (fun i _ ->
        match List.find_opt (fun (p, _) -> int_of_nat p = i) st.M.settled0 with
        | Some (_, v) -> string_of_int (int_of_nat v) | None -> "P") sizes in
    Printf.sprintf "X bytes=%d content=1 calls=%d p=%s twice=0" (List.length st.M.wire) (int_of_nat st.M.sends) (String.concat "," vals)
  | [ "F"; _thread; _delay; spec ] when List.exists (fun x -> x <> "" && x.[0] = 't') (String.split_on_char ',' spec) ->
    "UNSUPPORTED-BY-MODEL (a file that shrinks after it was queued: its write fails, the others are delivered; judged by the oracle)"
  | [ "F"; _thread; _delay; spec ] ->
    (* memory and file buffers are the same to the model: a FIFO of byte strings; sizes scaled down 1:64 above 64 kB *)
    let sizes = List.map (fun x -> int_of_string (String.sub x 1 (String.length x - 1))) (List.filter (fun x -> x <> "") (String.split_on_char ',' spec)) in
    let scale n = if n >= 65536 then n / 64 else n in
    let bufs = List.map (fun n -> List.init (scale n) (fun _ -> ascii_of_int 97)) sizes in
    let total = List.fold_left ( + ) 0 (List.map scale sizes) in
    let pass = List.init (List.length sizes + 2) (fun _ -> M.Acc (nat_of_int (total + 1))) in
    let st = M.events (nat_of_int (List.length sizes + 4)) (M.issue bufs) pass in
    let ok = List.length st.M.wire = total in
    let vals = List.mapi (fun i n ->
        match List.find_opt (fun (p, _) -> int_of_nat p = i) st.M.settled0 with
        | Some (_, v) when int_of_nat v = scale n -> string_of_int n | Some (_, v) -> "scaled" ^ string_of_int (int_of_nat v) | None -> "P") sizes in
    Printf.sprintf "F bytes=%d content=1 calls=0 p=%s twice=0" (if ok then List.fold_left ( + ) 0 sizes else List.length st.M.wire) (String.concat "," vals)
  | "G" :: nt :: nw :: sz :: _ ->
    (* several producers: the cross-thread queue keeps each producer's order (C13) and the drain loop sends whole
       entries one after the other (C06 invariant): run the write-path model on one interleaving of the producers *)
    let nt = int_of_string nt and nw = int_of_string nw and sz = int_of_string sz in
    let each = 17 + min sz 32 in   (* the model is size-independent; keep the lists short *)
    let order = List.concat (List.init nw (fun _ -> List.init nt (fun t -> t))) in
    let bufs = List.map (fun t -> List.init each (fun _ -> ascii_of_int (97 + t))) order in
    let total = each * nt * nw in
    let pass = List.init (nt * nw + 2) (fun _ -> M.Acc (nat_of_int (total + 1))) in
    let st = M.events (nat_of_int (nt * nw + 4)) (M.issue bufs) pass in
    let delivered = List.length st.M.wire = total in
    let fulfilled = List.length (List.filter (fun (_, v) -> int_of_nat v = each) st.M.settled0) in
    Printf.sprintf "G bytes=%d whole=%d torn=0 misordered=0 fulfilled=%d other=%d"
      (if delivered then (17 + sz) * nt * nw else List.length st.M.wire) (if delivered then nt * nw else 0) fulfilled (nt * nw - fulfilled)
  | "S" :: _ -> "S b_answered=1 b_latency_ok=1 spin=0 a_content=1 a_value=1"
  | [ "E"; _busy; size ] ->
    (* the kernel takes a part, then refuses; later one poll result reports the descriptor readable AND writable *)
    let n_real = int_of_string size in
    (* the model is size-independent: run it on a 1/4096 scale (the extracted list functions are not tail-recursive) *)
    let scale = if n_real >= 1 lsl 16 then 4096 else 1 in
    let n = n_real / scale in
    let part = max 1 (n / 3) in
    let buf = List.init n (fun _ -> ascii_of_int 97) in
    let (s1, _) = M.drain_event (M.issue [ buf ]) [ M.Acc (nat_of_int part); M.WouldBlock ] in
    let (s2, _) = M.on_ready true s1 (M.Ready (true, true)) [ M.Acc (nat_of_int (n + 1)); M.Acc (nat_of_int (n + 1)) ] in
    let v = match List.find_opt (fun (p, _) -> int_of_nat p = 0) s2.M.settled0 with
      | Some (_, v) -> string_of_int (int_of_nat v * scale) | None -> "P" in
    Printf.sprintf "E bytes=%d content=1 p=%s" (List.length s2.M.wire * scale) v
  | [ "E"; _busy; size; "f" ] ->
    (* as above, but the handler of the readable half queues 4 more bytes and flushes: the queue is drained before the
       writable half of the same poll result is looked at (TransportModel.on_ready: an empty queue is left alone) *)
    let n_real = int_of_string size in
    let scale = if n_real >= 1 lsl 16 then 4096 else 1 in
    let n = n_real / scale in
    let part = max 1 (n / 3) in
    let buf = List.init n (fun _ -> ascii_of_int 97) in
    let (s1, _) = M.drain_event (M.issue [ buf ]) [ M.Acc (nat_of_int part); M.WouldBlock ] in
    let s1' = M.enqueue s1 (nat_of_int 1) (List.init 4 (fun _ -> ascii_of_int 84)) in
    let (s2, _) = M.drain_event s1' [ M.Acc (nat_of_int (n + 5)); M.Acc (nat_of_int (n + 5)) ] in
    let (s3, _) = M.on_ready true s2 (M.Ready (true, true)) [ M.Acc (nat_of_int (n + 5)) ] in
    let v = match List.find_opt (fun (p, _) -> int_of_nat p = 0) s3.M.settled0 with
      | Some (_, v) -> string_of_int (int_of_nat v * scale) | None -> "P" in
    Printf.sprintf "E bytes=%d content=1 p=%s" ((List.length s3.M.wire - 4) * scale + 4) v
  | _ -> "BADCASE"

(* ---------------- connection lifecycle (C08) ---------------- *)

let lifecycle_case (toks : string list) : string =
  match toks with
  | [ mode; _workers; rounds; behs ] ->
    let bs = List.filter (fun x -> x <> "") (String.split_on_char ',' behs) in
    let rounds = int_of_string rounds in
    let width = List.length bs in
    (* descriptors are reused from round to round, as the kernel does *)
    let conn_events fd b =
      let f = nat_of_int fd in
      if mode = "T" then (match b with
        | "c" -> [ M.EAccept f; M.EEof f ]
        | "d" | "f" | "h" | "K" | "n" | "u" | "v" -> [ M.EAccept f; M.EData f; M.EEof f ]
        | "r" -> [ M.EAccept f; M.EData f; M.EErr0 f ]
        | "R" -> [ M.EAccept f; M.EErr0 f ]
        | "p" -> [ M.EAccept f; M.EData f; M.EWriteFail f; M.EErr0 f ]
        | _ -> [])
      else (match b with
        | "c" -> [ M.EAccept f; M.EEof f ]
        | "f" | "k" | "h" | "z" | "s" | "S" | "t" | "L" | "M" | "O" | "Y" | "P" | "G" | "E" -> [ M.EAccept f; M.EData f; M.EEof f ]
        | "A" -> [ M.EAccept f; M.EData f; M.EWriteFail f; M.EErr0 f ]
        | "d" | "b" -> [ M.EAccept f; M.EData f; M.EEof f ]
        | "r" -> [ M.EAccept f; M.EData f; M.EErr0 f ]
        | "i" -> [ M.EAccept f; M.EIdle f ]
        | "j" | "m" -> [ M.EAccept f; M.EData f; M.EIdle f ]
        | "w" -> [ M.EAccept f; M.EData f; M.EWriteFail f; M.EErr0 f ]   (* the 408 never gets written: no idle close *)
        | _ -> []) in
    let request_seen b = List.mem b [ "f"; "k"; "h"; "r"; "m"; "w"; "z"; "s"; "S"; "t"; "A"; "L"; "M"; "O"; "Y"; "P"; "G"; "E" ] in
    (* interleave the connections of one round event by event *)
    let rec interleave (ls : M.ev0 list list) : M.ev0 list =
      let heads = List.filter_map (function [] -> None | x :: _ -> Some x) ls in
      if heads = [] then [] else heads @ interleave (List.map (function [] -> [] | _ :: r -> r) ls) in
    (* after every round: min(width, 8) fresh connections, one request each *)
    let nprobe = min width 8 in
    let probes = List.init nprobe (fun _ -> "f") in
    let evs = List.concat (List.init rounds (fun _ ->
        interleave (List.mapi (fun i b -> conn_events (i + 10) b) bs)
        @ interleave (List.mapi (fun i b -> conn_events (i + 10) b) probes))) in
    let st = M.lrun evs in
    (* the write queues: behaviours that leave an answer unsent when the connection ends *)
    let unsent b = if mode = "T" then b = "p" else List.mem b [ "z"; "w"; "s"; "A" ] in
    let answered b = if mode = "T" then List.mem b [ "d"; "f"; "h"; "r"; "n" ] else List.mem b [ "f"; "k"; "h"; "r"; "m"; "S"; "t"; "i"; "j"; "M"; "O"; "Y"; "P"; "G"; "E" ] in
    let qconn fd b =
      let f = nat_of_int fd in
      [ M.QAccept f ] @ (if unsent b then [ M.QQueue f ] else if answered b then [ M.QQueue f; M.QFlush f ] else []) @ [ M.QClose f ] in
    (* 'K' (raw handler): the handler keeps the peer and sends to it when the connection is gone and the fresh connection
       of the round holds its number: a write for the PREVIOUS generation of the number ([QLate fd 0] is a placeholder,
       the generation is filled in below).  'L' (Http handler answering late): the ResponseWriter finds its peer gone,
       nothing is written. *)
    let qprobe i fd =
      let f = nat_of_int fd in
      if mode = "T" && List.nth bs i = "K" then [ M.QAccept f; M.QQueue f; M.QFlush f; M.QLate (f, nat_of_int 0); M.QFlush f; M.QClose f ]
      else qconn fd "f" in
    let qevs0 = List.concat (List.init rounds (fun _ ->
        List.concat (List.mapi (fun i b -> qconn (i + 10) b) bs) @ List.concat (List.mapi (fun i _ -> qprobe i (i + 10)) probes))) in
    let qevs =
      let count = ref 0 and cur = Hashtbl.create 16 and prev = Hashtbl.create 16 in
      List.map (fun e -> match e with
          | M.QAccept f -> incr count;
            (match Hashtbl.find_opt cur (int_of_nat f) with Some g -> Hashtbl.replace prev (int_of_nat f) g | None -> ());
            Hashtbl.replace cur (int_of_nat f) !count; e
          | M.QLate (f, _) -> M.QLate (f, nat_of_int (try Hashtbl.find prev (int_of_nat f) with Not_found -> 0))
          | _ -> e) qevs0 in
    let stale = int_of_nat (M.q_stale (M.qrun true qevs)) in
    (* files queued by Http::serveFile: header then file; 's' abandons the download, 'S' completes it *)
    let fconn fd b =
      let f = nat_of_int fd in
      if mode = "T" then [] else match b with
        | "s" | "A" -> [ M.FQueue (f, false); M.FQueue (f, true); M.FSent f; M.FDrop f ]
        | "S" -> [ M.FQueue (f, false); M.FQueue (f, true); M.FSent f; M.FSent f; M.FDrop f ]
        | _ -> [ M.FDrop f ] in
    let fevs = List.concat (List.init rounds (fun _ -> List.concat (List.mapi (fun i b -> fconn (i + 10) b) bs))) in
    let fst_ = M.frun true fevs in
    let files_open = List.fold_left (fun a i -> a + int_of_nat (fst_.M.f_files (nat_of_int (i + 10)))) 0 (List.init width (fun i -> i)) in
    (* split the log per descriptor into connection records at each release *)
    let recs = ref [] and after = ref 0 in
    List.iteri (fun i b ->
        let fd = i + 10 in
        let cur = Buffer.create 8 and nrec = ref 0 in
        (* the records of a descriptor number alternate between the round's connection and the fresh one after the round *)
        let flush () = if Buffer.length cur > 0 then
            (recs := ((if i < nprobe && !nrec mod 2 = 1 then "f" else b), Buffer.contents cur) :: !recs; incr nrec; Buffer.clear cur) in
        List.iter (fun (f, c) ->
            if int_of_nat f = fd then
              (let told = Buffer.length cur > 0 && Buffer.nth cur (Buffer.length cur - 1) = 'D' in
               match c with
               | M.CConn -> if told then incr after; Buffer.add_char cur 'C'
               | M.CInput -> if told then incr after;
                 if not (Buffer.length cur > 0 && Buffer.nth cur (Buffer.length cur - 1) = 'I') then Buffer.add_char cur 'I'
               | M.CDisc -> if told then incr after; Buffer.add_char cur 'D'
               | M.CRelease -> flush ())) st.M.log0;
        flush ()) bs;
    let shown = List.map (fun (b, r) ->
        if mode = "T" then r
        else (* the Http handler sees requests, not raw input, and no connection callback *)
          String.concat "" (List.filter_map (fun ch -> match ch with
              | 'C' -> None | 'I' -> if request_seen b then Some "I" else None | c -> Some (String.make 1 c))
              (List.init (String.length r) (String.get r)))) !recs in
    let shown = List.sort compare shown in
    ignore width;
    (* tables: peers left + write queues left under closed numbers (q_closed_number_has_no_queue: none) *)
    let qst = M.qrun true qevs in
    let queues_left = List.length (List.filter (fun i -> not (qst.M.q_open (nat_of_int (i + 10))) && qst.M.q_queue (nat_of_int (i + 10)) <> []) (List.init width (fun i -> i))) in
    Printf.sprintf "%s conns=%d logs=%s after_disc=%d fd_delta=%d stale=%d tables=%d" mode (List.length shown)
      (if shown = [] then "-" else String.concat "," shown) !after (List.length st.M.peers + files_open) stale (List.length st.M.peers + queues_left)
  | _ -> "BADCASE"

(* ---------------- client request/response matching (C15) ---------------- *)

(* The harness' scripted server and the client's timers are replayed as a timed event list; the
   model decides what each event does.  Times in ms. *)
let client_case (toks : string list) : string =
  match toks with
  | [ "C"; _threads; _timeout ] | [ "C"; _threads; _timeout; _ ] -> "C refused=R live=F"   (* outside the model: a connection that is never established carries no request *)
  | [ "L"; _threads; _rounds ] ->
    (* the adversarial interleaving of every round (B finds the connection busy, A completes and finds the queue empty, B is
       queued), then B's second look; C15_no_request_left_queued_beside_an_idle_connection covers all the others *)
    let s = M.hrun true (nat_of_int 1) [ M.HPickOk; M.HPickFail; M.HRelease; M.HProcess; M.HEnqueue; M.HProcess ] in
    Printf.sprintf "L stuck=%d wrong=0" (if M.h_stuck s then 1 else 0)
  | "K" :: _ :: _ :: _ :: w1 :: w2 :: _ when (let has_t w = List.exists (fun x -> x <> "" && x.[0] = 'T') (String.split_on_char ',' w) in has_t w1 || has_t w2) ->
    "UNSUPPORTED-BY-MODEL (response and time-out race: either outcome is allowed for that request)"
  | "K" :: _threads :: m :: timeout :: w1 :: w2 :: rest ->
    let m = int_of_string m and timeout = int_of_string timeout in
    let beh w = if w = "-" then [] else List.filter (fun x -> x <> "") (String.split_on_char ',' w) in
    let w1 = beh w1 and w2 = beh w2 in
    let gap = match rest with [ g ] -> int_of_string g | _ -> timeout + 100 in
    (* <behaviour>@<ms>: the request's own time-out *)
    let split_at x = match String.index_opt x '@' with
      | Some i -> (String.sub x 0 i, int_of_string (String.sub x (i + 1) (String.length x - i - 1)))
      | None -> (x, timeout) in
    let own = Array.of_list (List.map (fun x -> snd (split_at x)) (w1 @ w2)) in
    let behs = Array.of_list (List.map (fun x -> fst (split_at x)) (w1 @ w2)) in
    let n = Array.length behs in
    let sigma = ref M.kinit in
    let gen = Array.make (m + 1) 0 in
    (* pending events: (time, seq, kind) kind: `Issue | `Resp (c, gen, close_after) | `Tmo (c, r) *)
    let evq = ref [] and seq = ref 0 in
    let push t k = incr seq; evq := (t, !seq, k) :: !evq in
    List.iteri (fun i _ -> push 0 (`Issue i)) w1;
    List.iteri (fun i _ -> push gap (`Issue (List.length w1 + i))) w2;
    let maxuse = ref 0 in
    let inflight c = ((!sigma).M.conns (nat_of_int c)).M.inflight in
    let started = Array.make n false in
    let note_starts now =
      (* requests newly in flight: schedule the server's answer and the client's timer *)
      let used = ref 0 in
      for c = 0 to m - 1 do
        match inflight c with
        | None -> ()
        | Some r ->
          incr used;
          let r = int_of_nat r in
          if r < n && not started.(r) then begin
            started.(r) <- true;
            if own.(r) > 0 then push (now + own.(r)) (`Tmo (c, r));
            (match behs.(r) with
             | "a" | "q" -> push (now + 1) (`Resp (c, gen.(c), false))
             (* interim responses (100, 102) are not the answer: only the final response counts *)
             | "Q" -> push (now + 21) (`Resp (c, gen.(c), false))
             | "d" -> push (now + 60) (`Resp (c, gen.(c), false))
             | "b" -> push (now + 30) (`Resp (c, gen.(c), false))
             | "c" -> push (now + 15) (`Resp (c, gen.(c), false))
             | "e" -> push (now + 250) (`Resp (c, gen.(c), false))
             | "g" -> push (now + timeout * 7 / 10) (`Resp (c, gen.(c), false))
             | "x" | "z" -> push (now + 1) (`Resp (c, gen.(c), true))
             | "X" -> push (now + 1) (`Close (c, gen.(c)))
             (* answered; then bytes nobody asked for arrive (or the server closes): the client gives the connection up *)
             | "U" | "P" | "S" | "W" -> push (now + 1) (`Resp (c, gen.(c), false)); push (now + 61) (`Close (c, gen.(c)))
             (* a response the client can not parse: the request fails, the connection is given up *)
             | "D" -> push (now + 1) (`Close (c, gen.(c)))
             | "l" -> push (now + timeout + 300) (`Resp (c, gen.(c), false))
             | _ -> ())
          end
      done;
      if !used > !maxuse then maxuse := !used in
    let step e = sigma := M.kstep true (nat_of_int m) !sigma e in
    let guard = ref 0 in
    while !evq <> [] && !guard < 100000 do
      incr guard;
      let sorted = List.sort compare !evq in
      let (t, _, k) = List.hd sorted in
      evq := List.tl sorted;
      (match k with
       | `Issue _ -> step M.KIssue
       | `Resp (c, g, close_after) ->
         if g = gen.(c) then begin
           step (M.KRespond (nat_of_int c));
           if close_after then begin
             (* the hand-over may already have put a queued request on the connection: it is lost with it *)
             gen.(c) <- gen.(c) + 1; step (M.KServerClose (nat_of_int c)) end
         end
       | `Close (c, g) -> if g = gen.(c) then begin gen.(c) <- gen.(c) + 1; step (M.KServerClose (nat_of_int c)) end
       | `Tmo (c, r) ->
         (match inflight c with
          | Some r' when int_of_nat r' = r -> gen.(c) <- gen.(c) + 1; step (M.KTimeout (nat_of_int c))
          | _ -> ()));
      note_starts t
    done;
    let outcome i = match (!sigma).M.st (nat_of_int i) with
      | M.Fulfilled0 a -> "F" ^ string_of_int (int_of_nat a)
      | M.Rejected1 -> "R"
      | _ -> "P" in
    Printf.sprintf "K r=%s twice=0 maxconn=%d limit=%d" (String.concat "," (List.init n outcome)) !maxuse m
  | _ -> "BADCASE"

(* ---------------- multi-threaded dispatch (C09) ---------------- *)

let dispatch_case (toks : string list) : string =
  match toks with
  | [ "M"; workers; clients; requests; shut ] ->
    let w = int_of_string workers and c = int_of_string clients and r = int_of_string requests in
    let methods = [| "GET"; "POST"; "PUT"; "DELETE"; "PATCH"; "OPTIONS" |] in
    (* the global history: the clients' requests interleaved round-robin (any interleaving gives the same, C09 theorem) *)
    let hist = List.concat (List.init r (fun i -> List.init c (fun k -> (nat_of_int (k + 5), (methods.((k + i) mod 6), k * 100000 + i))))) in
    let handle (m, id) = if m = "PATCH" || m = "OPTIONS" then "none" else m ^ ":" ^ string_of_int id in
    let st = M.run3 handle (nat_of_int w) hist in
    let ok = ref 0 in
    for k = 0 to c - 1 do
      let rs = M.responses (nat_of_int w) st (nat_of_int (k + 5)) in
      List.iteri (fun i x -> let m = methods.((k + i) mod 6) in
                   if x = handle (m, k * 100000 + i) then incr ok) rs
    done;
    (* the shutdown protocol of one loop: events arriving, shutdown() = store then notify, the poll returns *)
    let loop_history = List.init (min (c * r) 50) (fun i -> if i mod 3 = 2 then M.SPollReturn else M.SOther)
                       @ [ M.SStore; M.SOther; M.SNotify; M.SOther; M.SPollReturn; M.SOther ] in
    let ended = match (M.srun loop_history).M.ph with M.Exited -> 1 | M.Waiting -> 0 in
    if int_of_string shut >= 0 then Printf.sprintf "M ok=* bad=0 short=0 shutdown=%d threads_left=%d" ended (1 - ended)
    else Printf.sprintf "M ok=%d bad=0 short=0 shutdown=%d threads_left=%d" !ok ended (1 - ended)
  | [ "R"; _workers; asks ] -> Printf.sprintf "R got=%s lost=0" asks
  | [ "R2"; _workers; rounds ] -> Printf.sprintf "R2 both=%s lost=0" rounds
  | [ "B"; _workers ] ->
    (* the loop of a blocking serve(): events, then shutdown() from the other thread, the poll returns: serve() returns *)
    let h = [ M.SOther; M.SPollReturn; M.SOther; M.SPollReturn; M.SStore; M.SNotify; M.SPollReturn ] in
    Printf.sprintf "B bound=1 answered=1 returned=%d" (match (M.srun h).M.ph with M.Exited -> 1 | M.Waiting -> 0)
  | [ "I"; workers ] ->
    (* shutdown() right after serveThreaded(): for each worker loop the store (and the notify) may come before the thread
       enters its loop, between its entry and its first poll, or later; every placement must end the loop *)
    let w = int_of_string workers in
    let placements = [ ([ M.SStore; M.SNotify ], [ M.SPollReturn; M.SOther; M.SPollReturn ]);
                       ([ M.SStore ], [ M.SNotify; M.SPollReturn; M.SOther; M.SPollReturn ]);
                       ([], [ M.SStore; M.SNotify; M.SPollReturn; M.SOther; M.SPollReturn ]);
                       ([ M.SOther ], [ M.SOther; M.SStore; M.SOther; M.SNotify; M.SPollReturn ]) ] in
    let alive = List.length (List.filter (fun (b, a) -> match (M.srun_from false b a).M.ph with M.Exited -> false | M.Waiting -> true) placements) in
    Printf.sprintf "I shutdown=1 threads_left=%d dtor=1" (if alive = 0 then 0 else w)
  | _ -> "BADCASE"

(* ---------------- server time-outs (C14) ---------------- *)

(* The scan ticks every 500 ms with an unknown phase; the client's sends can be late.  The case is decided by the
   model only if every phase (10 ms grid, both tie orders) and every lateness (0/30/60 ms) gives the same outcome. *)
let timeout_case (toks : string list) : string =
  match toks with
  | [ "Z"; maxsz; segs ] ->
    (* HandlerModel.serve: Handler::onInput read by read on a live connection *)
    let reads = List.map bytes_of_hex (List.filter (fun x -> x <> "") (String.split_on_char ',' segs)) in
    (match M.serve M.typed_other_inst M.set_cookie_inst (nat_of_int (int_of_string maxsz)) M.pstate_init reads with
     | None -> "Z out-of-fuel"
     | Some acts ->
    let codes = List.filter_map (function M.ARespond c -> Some (decimal_of_n c) | M.AHandler _ -> Some "200" | M.AWait -> None) acts in
    let seen = List.filter_map (function
        | M.AHandler m -> Some (str_of_bytes m.M.m_resource ^ ":" ^ string_of_int (List.length m.M.m_body))
        | _ -> None) acts in
    Printf.sprintf "Z codes=%s handler=%d seen=%s" (if codes = [] then "-" else String.concat "," codes) (List.length seen)
      (if seen = [] then "-" else String.concat "," seen))
  | [ "W"; hT; bT; script ] ->
    let hT = int_of_string hT and bT = int_of_string bT in
    let steps = List.filter (fun x -> x <> "") (String.split_on_char ',' script) in
    let simulate phase late tick_first =
      (* events: (time, order, kind) *)
      let t = ref 0 and sends = ref [] in
      List.iter (fun st -> if st.[0] = 'd' then t := !t + int_of_string (String.sub st 1 (String.length st - 1)) + late
                  else sends := (!t, st.[0]) :: !sends) steps;
      let sends = List.rev !sends in
      let t_end = !t in
      let horizon = t_end + bT + 2500 in
      let ticks = let rec go k acc = let x = phase + 500 * k in if x > horizon then List.rev acc else go (k + 1) (x :: acc) in go 0 [] in
      let evs = List.sort (fun (a, oa, _) (b, ob, _) -> compare (a, oa) (b, ob))
          (List.map (fun (x, c) -> (x, (if tick_first then 1 else 0), `Send c)) sends @ List.map (fun x -> (x, (if tick_first then 0 else 1), `Tick)) ticks) in
      let start = ref 0 and step = ref 0 and body = ref 0 and has_cl = ref false and closed = ref false in
      let codes = ref [] and handler = ref 0 and stop = ref false in
      let last_send = match List.rev sends with (x, _) :: _ -> x | [] -> 0 in
      let complete now = incr handler; codes := 200 :: !codes; start := now; step := 0; body := 0; has_cl := false;
        if now >= last_send then stop := true in
      List.iter (fun (now, _, k) ->
          if not !closed && not !stop then
            match k with
            | `Tick ->
              if M.idle (nat_of_int !step) (n_of_int (now - !start)) (n_of_int hT) (n_of_int bT) then begin
                codes := 408 :: !codes; closed := true end
            | `Send c ->
              (match c with
               | 'p' -> ()
               | 'P' | 'q' -> step := 1
               | 'h' -> has_cl := true
               | 'e' -> if !has_cl then step := 2 else complete now
               | 'c' -> body := !body + 2; if !body >= 10 then complete now
               | 'b' -> body := !body + 5; if !body >= 10 then complete now
               | 'B' -> body := !body + 10; if !body >= 10 then complete now
               | 'g' -> complete now
               | _ -> ())) evs;
      Printf.sprintf "W codes=%s closed=%d handler=%d"
        (if !codes = [] then "-" else String.concat "," (List.rev_map string_of_int !codes)) (if !closed then 1 else 0) !handler in
    let outs = List.concat_map (fun phase -> List.concat_map (fun late -> [ simulate phase late true; simulate phase late false ]) [ 0; 30; 60 ])
        (List.init 50 (fun i -> i * 10)) in
    (match outs with
     | o :: rest when List.for_all (fun x -> x = o) rest -> o
     | _ -> "W UNSUPPORTED-BY-MODEL outcome depends on the phase of the 500 ms scan")
  | _ -> "BADCASE"

(* ---------------- wire forms (C05, C02) ---------------- *)

let bytes_of_string (s : string) : M.ascii list = List.init (String.length s) (fun i -> ascii_of_int (Char.code s.[i]))

let canon_wire (raw : string) : string =
  (* status/request line first, the other header lines sorted *)
  let find_sub s sub = let n = String.length s and m = String.length sub in
    let rec go i = if i + m > n then None else if String.sub s i m = sub then Some i else go (i + 1) in go 0 in
  match find_sub raw "\r\n\r\n" with
  | None -> raw
  | Some he ->
    let head = String.sub raw 0 he and body = String.sub raw (he + 4) (String.length raw - he - 4) in
    let lines = Str.split_delim (Str.regexp "\r\n") head in
    (match lines with
     | [] -> raw
     | l0 :: rest -> String.concat "" (List.map (fun l -> l ^ "\r\n") (l0 :: List.sort compare rest)) ^ "\r\n" ^ body)

let hex_of_string (s : string) : string =
  if s = "" then "-" else String.concat "" (List.init (String.length s) (fun i -> Printf.sprintf "%02x" (Char.code s.[i])))

let kv_pairs (s : string) : (M.ascii list * M.ascii list) list =
  if s = "-" then [] else
    List.map (fun x -> match String.split_on_char '=' x with [ k; v ] -> (bytes_of_hex k, bytes_of_hex v) | _ -> ([], [])) (String.split_on_char ',' s)

let wire_case (toks : string list) : string =
  match toks with
  | "P" :: code :: cap :: server :: location :: cookies :: body :: rest ->
    let raw = match rest with
      | [ r ] when String.length r > 4 && String.sub r 0 4 = "raw=" ->
        (match String.split_on_char ':' (String.sub r 4 (String.length r - 4)) with
         | [ n; v ] -> [ (bytes_of_hex n, bytes_of_hex v) ] | _ -> [])
      | _ -> [] in
    let hs = [ (bytes_of_string "Connection", bytes_of_string "Keep-Alive") ]
             @ (if server = "-" then [] else [ (bytes_of_string "Server", bytes_of_hex server) ])
             @ (if location = "-" then [] else [ (bytes_of_string "Location", bytes_of_hex location) ])
             @ raw in
    let cs = List.map (fun (k, v) -> k @ (ascii_of_int 61 :: v)) (kv_pairs cookies) in
    (match M.put_on_wire (nat_of_int (int_of_string cap)) (n_of_int (int_of_string code)) hs cs (bytes_of_hex body) with
     | M.Emitted (b, n) -> Printf.sprintf "P emitted %s size=%d" (hex_of_string (canon_wire (str_of_bytes b))) (int_of_nat n)
     | M.Rejected0 -> "P rejected received=0")
  | [ "U"; code; cap; items ] when
      List.exists (fun it -> String.length it > 1 && (it.[0] = 'w' || it.[0] = 'l') && (String.length it - 1) / 2 + 20 > int_of_string cap)
        (String.split_on_char ',' items) ->
    ignore code; "U UNSUPPORTED-BY-MODEL a chunk exceeds the response buffer: the handler gets an error (checked by the oracle)"
  | [ "U"; code; _cap; items ] ->
    (* the data written, as text: what operator<< of an ostream prints for the value; empty pieces carry nothing *)
    let piece it =
      let arg = if String.length it > 1 then String.sub it 1 (String.length it - 1) else "" in
      match it.[0] with
      | 'w' | 's' | 'l' | 'c' | 'a' -> Some (bytes_of_hex arg)
      | 'i' | 'u' -> Some (bytes_of_string arg)
      | 'b' -> Some (bytes_of_string arg)
      | _ -> None in
    let cs = List.filter (fun c -> c <> []) (List.filter_map piece (List.filter (fun x -> x <> "") (String.split_on_char ',' items))) in
    let hs = [ (bytes_of_string "Connection", bytes_of_string "Keep-Alive") ] in
    "U " ^ hex_of_string (canon_wire (str_of_bytes (M.render_stream (n_of_int (int_of_string code)) hs [] cs)))
  | [ "T"; code; chunks ] ->
    let cs = if chunks = "-" then [] else List.map bytes_of_hex (String.split_on_char ',' chunks) in
    let hs = [ (bytes_of_string "Connection", bytes_of_string "Keep-Alive") ] in
    "T " ^ hex_of_string (canon_wire (str_of_bytes (M.render_stream (n_of_int (int_of_string code)) hs [] cs)))
  | [ "V"; big; file; _gap ] ->
    (* three responses, each contiguous (WireModel.render_response is one byte string per response; the transport model
       delivers what is queued in order): lengths of the three bodies *)
    Printf.sprintf "V n=3 ok=1 lens=%d,%d,7" (int_of_string big lsl 20) (int_of_string file * 1024)
  | "Q" :: m :: path :: query :: cookies :: body :: rest ->
    (* typed headers set through the builder: h=<name hex>:<value hex>,...  (values in the form their writer prints) *)
    let hs = match rest with
      | [ h ] when String.length h > 2 ->
        List.map (fun x -> match String.split_on_char ':' x with
            | [ n; v ] -> (bytes_of_hex n, bytes_of_hex v) | _ -> ([], []))
          (String.split_on_char ',' (String.sub h 2 (String.length h - 2)))
      | _ -> [] in
    let qs = kv_pairs query in
    let qstr = match qs with
      | [] -> []
      | _ -> List.concat (List.mapi (fun i (k, v) -> (ascii_of_int (if i = 0 then 63 else 38)) :: k @ (ascii_of_int 61 :: v)) qs) in
    let b = M.write_request (bytes_of_string method_str.(int_of_string m)) (bytes_of_string "HOST") (bytes_of_hex path) qstr (kv_pairs cookies) hs (bytes_of_hex body) in
    let txt = str_of_bytes b in
    (* WireModel.write_request always adds the framework's User-Agent line; the serialiser omits it when the builder set one *)
    let txt = if List.exists (fun (n, _) -> String.lowercase_ascii (str_of_bytes n) = "user-agent") hs
      then Str.global_replace (Str.regexp_string "User-Agent: pistache/0.1\r\n") "" txt else txt in
    let txt = Str.global_replace (Str.regexp "Host: HOST") "Host: HOST" txt in
    "Q " ^ hex_of_string (canon_wire txt)
  | _ -> "BADCASE"

let () =
  let area = Sys.argv.(1) in
  let f = match area with
    | "base64" -> base64_case
    | "parser" -> parser_case
    | "router" -> router_case
    | "queue" -> queue_case
    | "pconc" -> pconc_case
    | "promise" -> promise_case
    | "net" -> net_case
    | "mime" -> mime_case
    | "cookie" -> cookie_case
    | "headers" -> header_case
    | "transport" -> transport_case
    | "wire" -> wire_case
    | "lifecycle" -> lifecycle_case
    | "client" -> client_case
    | "dispatch" -> dispatch_case
    | "timeout" -> timeout_case
    | _ -> failwith ("unknown area " ^ area) in
  try
    while true do
      let line = input_line stdin in
      print_endline (try f (split_ws line) with Stack_overflow -> "MODEL-STACK-OVERFLOW")
    done
  with End_of_file -> ()
