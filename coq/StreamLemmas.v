(* C02 / C05, streamed responses: what ResponseStream writes (chunked transfer coding, one chunk per
   write, closed by the zero-length chunk) is parsed by the response parser model - its own chunk
   loop, not an independent reader - to exactly the data written. *)
From Coq Require Import Ascii String List NArith ZArith Bool Arith Lia.
Require Import Bytes BytesLemmas NumParse Decimal Restartable TablesGen ParserModel ParserLemmas WireModel ChunkLemmas RoundTripLemmas.
Import ListNotations.

(* ---------- strtol base 16 on the size line ---------- *)

Lemma take_digits16_all : forall ds rest a c,
  all_hex ds -> (match rest with x :: _ => digit_val 16 x = None | [] => True end) ->
  take_digits 16 (ds ++ rest) a c = (hexfrom a ds, (c + length ds)%nat, rest).
Proof.
  induction ds as [|d ds IH]; intros rest a c Ha Hr.
  - cbn [app length hexfrom fold_left]. rewrite Nat.add_0_r. destruct rest as [|x r]; [reflexivity|]. cbn [take_digits]. rewrite Hr. reflexivity.
  - inversion Ha as [|? ? [[v Hv] _] Ha']; subst. cbn [app take_digits]. rewrite Hv.
    rewrite (IH rest (a * 16 + v)%N (S c) Ha' Hr). unfold hexfrom. cbn [fold_left]. rewrite Hv.
    cbn [length]. rewrite Nat.add_succ_r. reflexivity.
Qed.

Lemma hex_first_plain c : (exists d, digit_val 16 c = Some d) ->
  is_space c = false /\ ascii_eqb c "-" = false /\ ascii_eqb c "+" = false /\ ascii_eqb c "x" = false /\ ascii_eqb c "X" = false.
Proof.
  intros [d Hd].
  assert (G : forall k : ascii, digit_val 16 k = None -> ascii_eqb c k = false).
  { intros k Hk. destruct (ascii_eqb c k) eqn:E; [|reflexivity]. apply ascii_eqb_eq in E. subst k. congruence. }
  repeat split; try (apply G; vm_compute; reflexivity).
  (* white space: 9..13 and 32 are not hex digits *)
  unfold is_space, in_range.
  destruct (N.leb_spec 9 (b2n c)); destruct (N.leb_spec (b2n c) 13); cbn [andb orb].
  - exfalso. assert (E : (b2n c = 9 \/ b2n c = 10 \/ b2n c = 11 \/ b2n c = 12 \/ b2n c = 13)%N) by lia.
    assert (Hc : c = n2b (b2n c)) by (symmetry; apply n2b_b2n).
    destruct E as [E|[E|[E|[E|E]]]]; rewrite E in Hc; subst c; vm_compute in Hd; discriminate.
  - apply G. vm_compute. reflexivity.
  - apply G. vm_compute. reflexivity.
  - apply G. vm_compute. reflexivity.
Qed.

Theorem strtol16_print_hex n : (Z.of_N n <= LONG_MAX)%Z -> strtol_all 16 (print_hex n) = Some (Z.of_N n).
Proof.
  intros Hn. unfold strtol_all. destruct (print_hex_spec n) as [Hne [Hall Hv]].
  destruct (print_hex n) as [|c r] eqn:Ep; [congruence|].
  pose proof (Forall_inv Hall) as [Hc _]. destruct (hex_first_plain c Hc) as [Hs [Hm [Hp _]]].
  cbn [skip_space]. rewrite Hs. cbn [strip_sign]. rewrite Hm, Hp.
  assert (H0x : strip_0x 16 (c :: r) = c :: r).
  { unfold strip_0x. replace (16 =? 16)%N with true by reflexivity. destruct r as [|x [|h r']]; try reflexivity.
    pose proof (Forall_inv (Forall_inv_tail Hall)) as [Hx _]. destruct (hex_first_plain x Hx) as [_ [_ [_ [Hx1 Hx2]]]].
    rewrite Hx1, Hx2. cbn [orb]. rewrite andb_false_r. reflexivity. }
  rewrite H0x. pose proof (take_digits16_all (c :: r) [] 0%N 0 Hall I) as Ht. rewrite app_nil_r in Ht. rewrite Ht, Hv.
  cbn [length plus].
  destruct (LONG_MAX <? Z.of_N n)%Z eqn:E1; [apply Z.ltb_lt in E1; lia|].
  destruct (Z.of_N n <? LONG_MIN)%Z eqn:E2; [apply Z.ltb_lt in E2; unfold LONG_MIN in E2; lia|]. reflexivity.
Qed.

(* ---------- the end of the size line ---------- *)

Lemma find_eol_after_hex : forall w rest, Forall (fun c => ascii_eqb c c_cr = false) w ->
  find_eol (w ++ c_cr :: c_lf :: rest) = Some (length w).
Proof.
  induction w as [|c w IH]; intros rest H.
  - cbn [app find_eol length]. replace (ascii_eqb c_cr c_cr && ascii_eqb c_lf c_lf) with true by reflexivity. reflexivity.
  - cbn [app]. cbn [find_eol]. destruct (w ++ c_cr :: c_lf :: rest) as [|b t] eqn:E; [destruct w; discriminate|].
    rewrite (Forall_inv H). cbn [andb]. rewrite <- E. rewrite IH by exact (Forall_inv_tail H). reflexivity.
Qed.

Lemma print_hex_no_cr n : Forall (fun c => ascii_eqb c c_cr = false) (print_hex n).
Proof. destruct (print_hex_spec n) as [_ [Hall _]]. eapply Forall_impl; [|exact Hall]. intros c [_ H]. exact H. Qed.

(* ---------- one chunk, then the loop ---------- *)

Lemma chunk_parse_one data more body : data <> [] -> (Z.of_nat (length data) <= LONG_MAX)%Z ->
  chunk_parse None body (chunk_text data ++ more)
  = CComplete (body ++ data) (length (chunk_text data)).
Proof.
  intros Hne Hmax. unfold chunk_parse, chunk_text. set (n := N.of_nat (length data)). unfold crlf.
  rewrite <- !app_assoc. cbn [app].
  rewrite find_eol_after_hex by apply print_hex_no_cr.
  rewrite firstn_app, Nat.sub_diag, firstn_all. cbn [firstn]. rewrite app_nil_r.
  rewrite strtol16_print_hex by (unfold n; lia).
  destruct (Z.of_N n <? 0)%Z eqn:E; [apply Z.ltb_lt in E; lia|].
  rewrite N2Z.id.
  replace (skipn (length (print_hex n) + 2) (print_hex n ++ c_cr :: c_lf :: data ++ c_cr :: c_lf :: more))
    with (data ++ c_cr :: c_lf :: more).
  2:{ rewrite skipn_app, skipn_all2 by lia. replace (length (print_hex n) + 2 - length (print_hex n)) with 2 by lia. reflexivity. }
  unfold chunk_data. destruct (N.eqb_spec n 0) as [E0|E0]; [unfold n in E0; destruct data; [congruence|cbn in E0; lia]|].
  rewrite app_length. cbn [length]. replace (Z.of_N n - Z.of_N 0)%Z with (Z.of_nat (length data)) by (unfold n; lia).
  destruct (Z.of_nat (length data + S (S (length more))) - 2 <? Z.of_nat (length data))%Z eqn:E2; [apply Z.ltb_lt in E2; lia|].
  rewrite Nat2Z.id, firstn_app, Nat.sub_diag, firstn_all. cbn [firstn]. rewrite app_nil_r.
  f_equal. rewrite !app_length. cbn [length]. rewrite app_length. cbn [length]. lia.
Qed.

Lemma chunk_parse_last body : chunk_parse None body last_chunk = CFinal (length last_chunk).
Proof. vm_compute. reflexivity. Qed.

Lemma match_nonempty {A B} (l : list A) (a b : B) : l <> [] -> (match l with [] => a | _ :: _ => b end) = b.
Proof. destruct l; [congruence|reflexivity]. Qed.

Lemma chunk_loop_stream : forall cs fuel body pre rd,
  Forall (fun c => c <> [] /\ (Z.of_nat (length c) <= LONG_MAX)%Z) cs -> length cs < fuel ->
  chunk_loop fuel None body (flat_map chunk_text cs ++ last_chunk) pre rd
  = BDone (body ++ concat cs) (pre + length (flat_map chunk_text cs ++ last_chunk)).
Proof.
  induction cs as [|c cs IH]; intros fuel body pre rd Hall Hf; (destruct fuel as [|f]; [cbn in Hf; lia|]).
  - cbn [flat_map app concat]. rewrite chunk_loop_S, chunk_parse_last. rewrite app_nil_r. reflexivity.
  - destruct (Forall_inv Hall) as [Hne Hmax]. cbn [flat_map concat]. rewrite <- app_assoc.
    rewrite chunk_loop_S, chunk_parse_one by assumption.
    rewrite skipn_app, skipn_all, Nat.sub_diag. cbn [skipn app].
    rewrite match_nonempty by (destruct (flat_map chunk_text cs); discriminate).
    rewrite IH by (try exact (Forall_inv_tail Hall); cbn [length] in Hf; lia).
    f_equal; [rewrite <- app_assoc; reflexivity|]. rewrite !app_length. lia.
Qed.

(* ---------- a whole chunked message ---------- *)

Lemma chunk_text_len c : 1 <= length (chunk_text c).
Proof. unfold chunk_text, crlf. rewrite !app_length. cbn [length]. lia. Qed.

Lemma chunks_len_le cs : length cs <= length (flat_map chunk_text cs).
Proof.
  induction cs as [|c cs IH]; [cbn; lia|]. cbn [flat_map length]. rewrite app_length. pose proof (chunk_text_len c). lia.
Qed.

Section ChunkedMessage.
  Variable typed_other : N -> bytes -> option err.
  Variable set_cookie : bytes -> option (bytes * bytes).

  Theorem chunked_message_parses_back k first feffs ls cs t :
    (forall rest, line_step k (first ++ rest) = ASettled FNext (length first) feffs) ->
    Forall (ok_line typed_other set_cookie) ls ->
    let m := apply msg_init (feffs ++ flat_map snd ls) in
    m_body m = [] -> typed_get m id_content_length = None -> typed_get m id_transfer_encoding = Some t -> te_is_chunked t = true ->
    Forall (fun c => c <> [] /\ (Z.of_nat (length c) <= LONG_MAX)%Z) cs ->
    let text := first ++ flat_map (fun l => header_line (fst l)) ls ++ crlf ++ flat_map chunk_text cs ++ last_chunk in
    exists st, whole typed_other set_cookie k text = (PDone, st) /\ p_msg st = set_body m (concat cs) /\ p_cur st = length text.
  Proof.
    intros Hfirst Hl m Hb0 Hcl Hte Hch Hcs text.
    unfold whole, feed_raw, pstate_init. cbn [p_step p_buf p_cur p_msg p_bs app].
    rewrite (parse0_settled typed_other set_cookie k _ 0 msg_init bstate_init (length first) feffs) by (cbn [skipn]; apply Hfirst).
    rewrite (parse1_settled typed_other set_cookie _ _ _ _ (length (flat_map (fun l => header_line (fst l)) ls) + 2) (flat_map snd ls)).
    2:{ cbn [Nat.add]. unfold text. rewrite skipn_len_app. apply headers_parse. exact Hl. }
    rewrite <- apply_app. fold m.
    unfold parse2. cbn [p_msg p_bs p_buf p_cur Nat.add].
    set (bodytext := flat_map chunk_text cs ++ last_chunk).
    assert (Hskip : skipn (length first + (length (flat_map (fun l => header_line (fst l)) ls) + 2)) text = bodytext).
    { unfold text. fold bodytext. rewrite app_assoc, app_assoc.
      replace (length first + (length (flat_map (fun l => header_line (fst l)) ls) + 2))
        with (length ((first ++ flat_map (fun l => header_line (fst l)) ls) ++ crlf)) by (rewrite !app_length; cbn; lia).
      apply skipn_len_app. }
    rewrite Hskip. unfold body_step. rewrite Hcl, Hte, Hch. cbn [bstate_init b_chunk b_read]. rewrite Hb0.
    unfold bodytext. rewrite chunk_loop_stream; [|exact Hcs|].
    2:{ pose proof (chunks_len_le cs) as Hle. rewrite app_length. apply Nat.lt_succ_r. apply (Nat.le_trans _ _ _ Hle). apply Nat.le_add_r. }
    eexists. split; [reflexivity|]. cbn [p_msg p_cur app]. split; [reflexivity|].
    unfold text. rewrite !app_length. cbn [crlf length]. rewrite ?app_length. lia.
  Qed.
End ChunkedMessage.

(* ---------- what ResponseStream writes ---------- *)

Section StreamServer.
  Variable typed_other : N -> bytes -> option err.
  Variable set_cookie : bytes -> option (bytes * bytes).

  Definition chunked : bytes := list_of_string "chunked".

  Definition stream_lines (hs : list (bytes * bytes)) (cks : list (bytes * (bytes * bytes))) : list ((bytes * bytes) * list eff) :=
    map set_cookie_line cks ++ map plain_line hs ++ [typed_line "Transfer-Encoding" chunked].

  Lemma render_stream_is_text code hs cks chunks :
    render_stream code hs (map fst cks) chunks
    = status_line code ++ flat_map (fun l => header_line (fst l)) (stream_lines hs cks) ++ crlf ++ flat_map chunk_text chunks ++ last_chunk.
  Proof.
    unfold render_stream, stream_head, stream_lines. rewrite !flat_map_app, plain_lines_text.
    rewrite <- !app_assoc. f_equal.
    assert (E : flat_map (fun c => list_of_string "Set-Cookie: " ++ c ++ crlf) (map fst cks)
                = flat_map (fun l : (bytes * bytes) * list eff => header_line (fst l)) (map set_cookie_line cks)).
    { induction cks as [|ck l IH]; [reflexivity|]. cbn [map flat_map set_cookie_line fst]. rewrite IH.
      unfold header_line. cbn [fst snd list_of_string app]. reflexivity. }
    rewrite E. cbn [flat_map typed_line fst]. unfold chunked, crlf.
    replace (header_line (list_of_string "Transfer-Encoding", list_of_string "chunked")) with (list_of_string "Transfer-Encoding: chunked" ++ [c_cr; c_lf]) by reflexivity.
    repeat (progress (rewrite <- ?app_assoc; cbn [app])). reflexivity.
  Qed.

  Lemma stream_lines_ok hs cks :
    Forall plain_header hs -> Forall (fun ck => cookie_ok set_cookie (fst ck) (snd ck)) cks ->
    typed_ok typed_other "Transfer-Encoding" chunked ->
    Forall (ok_line typed_other set_cookie) (stream_lines hs cks).
  Proof.
    intros Hhs Hck Hte. unfold stream_lines. apply Forall_app. split; [|apply Forall_app; split].
    - rewrite Forall_map. eapply Forall_impl; [|exact Hck]. intros [c kv] [Hv Hs]. cbn [fst snd] in *.
      split; [split; [discriminate|repeat constructor]|]. split; [exact Hv|]. cbn [set_cookie_line fst snd]. apply process_set_cookie. exact Hs.
    - rewrite Forall_map. eapply Forall_impl; [|exact Hhs]. intros h [H1 [H2 [H3 H4]]].
      split; [exact H1|]. split; [exact H2|]. apply process_plain; assumption.
    - constructor; [|constructor].
      split; [split; [discriminate|repeat constructor]|]. split; [split; [repeat constructor|reflexivity]|].
      apply process_typed; [split; vm_compute; reflexivity|vm_compute; reflexivity|].
      unfold typed_check. replace (match id_content_length with Some i => (i =? idx "Transfer-Encoding")%N | None => false end) with false by (vm_compute; reflexivity).
      exact Hte.
  Qed.

  Lemma untyped_stream_prefix hs cks : forallb untyped (flat_map snd (map set_cookie_line cks ++ map plain_line hs)) = true.
  Proof.
    rewrite flat_map_app, forallb_app. apply andb_true_iff. split.
    - induction cks as [|c l IH]; [reflexivity|]. cbn [map flat_map set_cookie_line snd app forallb untyped andb]. exact IH.
    - induction hs as [|h l IH]; [reflexivity|]. cbn [map flat_map plain_line snd app forallb untyped andb]. exact IH.
  Qed.

  Lemma stream_typed code hs cks :
    m_typed (apply msg_init ([SetCode (Z.of_N code)] ++ flat_map snd (stream_lines hs cks))) = [(idx "Transfer-Encoding", chunked)].
  Proof.
    rewrite apply_typed_only_effs. cbn [m_typed msg_init]. unfold stream_lines.
    rewrite app_assoc, flat_map_app, app_assoc, map_app, capply_app.
    rewrite (capply_untyped ([SetCode (Z.of_N code)] ++ flat_map snd (map set_cookie_line cks ++ map plain_line hs)))
      by (rewrite forallb_app, untyped_stream_prefix; reflexivity).
    reflexivity.
  Qed.

  (* ---- C02 / C05, streamed responses ---- *)
  Theorem stream_response_roundtrip code hs cks chunks :
    (code < 2147483648)%N -> Forall plain_header hs -> Forall (fun ck => cookie_ok set_cookie (fst ck) (snd ck)) cks ->
    typed_ok typed_other "Transfer-Encoding" chunked ->
    Forall (fun c => c <> [] /\ (Z.of_nat (length c) <= LONG_MAX)%Z) chunks ->
    exists st,
      whole typed_other set_cookie KResponse (render_stream code hs (map fst cks) chunks) = (PDone, st)
      /\ p_cur st = length (render_stream code hs (map fst cks) chunks)
      /\ p_msg st = set_body (apply msg_init ([SetCode (Z.of_N code)] ++ flat_map snd (stream_lines hs cks))) (concat chunks).
  Proof.
    intros Hc Hhs Hck Hte Hch. rewrite render_stream_is_text.
    destruct (chunked_message_parses_back typed_other set_cookie KResponse (status_line code) [SetCode (Z.of_N code)] (stream_lines hs cks) chunks chunked)
      as [st [H1 [H2 H3]]].
    - intros rest. apply status_line_parses. exact Hc.
    - apply stream_lines_ok; assumption.
    - rewrite apply_body. reflexivity.
    - unfold typed_get. rewrite stream_typed.
      replace id_content_length with (Some (idx "Content-Length")) by (vm_compute; reflexivity).
      cbn [find fst]. replace (idx "Transfer-Encoding" =? idx "Content-Length")%N with false by (vm_compute; reflexivity). reflexivity.
    - unfold typed_get. rewrite stream_typed.
      replace id_transfer_encoding with (Some (idx "Transfer-Encoding")) by (vm_compute; reflexivity).
      cbn [find fst]. rewrite N.eqb_refl. reflexivity.
    - vm_compute. reflexivity.
    - exact Hch.
    - exists st. repeat split; assumption.
  Qed.

  Corollary stream_response_body code hs cks chunks :
    (code < 2147483648)%N -> Forall plain_header hs -> Forall (fun ck => cookie_ok set_cookie (fst ck) (snd ck)) cks ->
    typed_ok typed_other "Transfer-Encoding" chunked ->
    Forall (fun c => c <> [] /\ (Z.of_nat (length c) <= LONG_MAX)%Z) chunks ->
    exists st,
      whole typed_other set_cookie KResponse (render_stream code hs (map fst cks) chunks) = (PDone, st)
      /\ p_cur st = length (render_stream code hs (map fst cks) chunks)
      /\ m_body (p_msg st) = concat chunks.
  Proof.
    intros Hc Hhs Hck Hte Hch. destruct (stream_response_roundtrip code hs cks chunks Hc Hhs Hck Hte Hch) as [st [H1 [H2 H3]]].
    exists st. split; [exact H1|]. split; [exact H2|]. rewrite H3. reflexivity.
  Qed.
End StreamServer.

(* ---------- streamed responses, field by field (status, cookies, raw headers in order, body) ---------- *)
Section StreamFields.
  Variable code : N.
  Variable hs : list (bytes * bytes).
  Variable cks : list (bytes * (bytes * bytes)).
  Let effs := [SetCode (Z.of_N code)] ++ flat_map snd (stream_lines hs cks).
  Let m := apply msg_init effs.

  Lemma stream_effs_split : effs =
    [SetCode (Z.of_N code)] ++ flat_map sc_effs cks ++ flat_map snd (map plain_line hs)
    ++ [AddTyped (idx "Transfer-Encoding") chunked; AddRaw (list_of_string "Transfer-Encoding") chunked].
  Proof.
    unfold effs, stream_lines. rewrite !flat_map_app. cbn [flat_map typed_line snd app]. f_equal. f_equal.
    induction cks as [|c l IH]; [reflexivity|]. cbn [map flat_map]. rewrite IH. reflexivity.
  Qed.

  Lemma stream_cookies : m_cookies m = capply _ same_pair [] (map (fun ck : bytes * (bytes * bytes) => CIns (snd ck)) cks).
  Proof.
    unfold m. rewrite (apply_proj _ m_cookies (fun x e => capply1 _ same_pair x (v_cookies e))) by reflexivity.
    rewrite <- (fold_left_map (capply1 _ same_pair) v_cookies). fold (capply _ same_pair (m_cookies msg_init) (map v_cookies effs)).
    rewrite capply_view, stream_effs_split. rewrite !flat_map_app.
    rewrite (keep_plain_none v_cookies) by reflexivity. cbn [flat_map keep v_cookies app msg_init m_cookies].
    rewrite app_nil_r. f_equal.
    induction cks as [|[c [k v]] l IH]; [reflexivity|]. cbn [flat_map sc_effs set_cookie_line snd fst app map]. rewrite IH. reflexivity.
  Qed.

  Lemma stream_raw : m_raw m = capply _ same_ci []
    (map (fun h : bytes * bytes => CIns h)
         (map (fun ck : bytes * (bytes * bytes) => (list_of_string "Set-Cookie", fst ck)) cks ++ hs
          ++ [(list_of_string "Transfer-Encoding", chunked)])).
  Proof.
    unfold m. rewrite (apply_proj _ m_raw (fun x e => capply1 _ same_ci x (v_raw e))) by reflexivity.
    rewrite <- (fold_left_map (capply1 _ same_ci) v_raw). fold (capply _ same_ci (m_raw msg_init) (map v_raw effs)).
    rewrite capply_view, stream_effs_split. rewrite !flat_map_app.
    rewrite keep_plain_raw. cbn [flat_map keep v_raw app msg_init m_raw]. rewrite !map_app. f_equal. f_equal.
    induction cks as [|[c [k v]] l IH]; [reflexivity|]. cbn [flat_map sc_effs set_cookie_line snd fst app map keep v_raw]. rewrite IH. reflexivity.
  Qed.

  Lemma stream_code : m_code m = Z.of_N code.
  Proof.
    unfold m. rewrite (apply_proj _ m_code (fun x e => rapply1 _ x (v_code e))) by reflexivity. rewrite stream_effs_split.
    rewrite !fold_left_app. cbn [fold_left rapply1 v_code].
    rewrite (fold_nop v_code (flat_map sc_effs cks)).
    2:{ induction cks as [|c l IH]; [constructor|]. cbn [flat_map sc_effs set_cookie_line snd app]. constructor; [reflexivity|]. constructor; [reflexivity|exact IH]. }
    rewrite (fold_nop v_code (flat_map snd (map plain_line hs))) by (apply nop_plain; reflexivity).
    reflexivity.
  Qed.
End StreamFields.

(* Server -> client, streamed: status, cookies, headers (in the order ResponseStream writes them: Set-Cookie lines,
   application headers, Transfer-Encoding) and the concatenated chunks. *)
Theorem stream_response_fields typed_other set_cookie code hs cks chunks :
  (code < 2147483648)%N -> Forall plain_header hs -> Forall (fun ck => cookie_ok set_cookie (fst ck) (snd ck)) cks ->
  typed_ok typed_other "Transfer-Encoding" chunked ->
  Forall (fun c => c <> [] /\ (Z.of_nat (length c) <= LONG_MAX)%Z) chunks ->
  exists st,
    whole typed_other set_cookie KResponse (render_stream code hs (map fst cks) chunks) = (PDone, st)
    /\ p_cur st = length (render_stream code hs (map fst cks) chunks)
    /\ m_code (p_msg st) = Z.of_N code
    /\ m_cookies (p_msg st) = capply _ same_pair [] (map (fun ck : bytes * (bytes * bytes) => CIns (snd ck)) cks)
    /\ m_raw (p_msg st) = capply _ same_ci []
         (map (fun h : bytes * bytes => CIns h)
              (map (fun ck : bytes * (bytes * bytes) => (list_of_string "Set-Cookie", fst ck)) cks ++ hs
               ++ [(list_of_string "Transfer-Encoding", chunked)]))
    /\ m_body (p_msg st) = concat chunks.
Proof.
  intros Hc Hhs Hck Hte Hch.
  destruct (stream_response_roundtrip typed_other set_cookie code hs cks chunks Hc Hhs Hck Hte Hch) as [st [H1 [H2 H3]]].
  exists st. split; [exact H1|]. split; [exact H2|]. rewrite H3. unfold set_body. cbn [m_code m_cookies m_raw m_body].
  repeat split; [apply stream_code|apply stream_cookies|apply stream_raw].
Qed.
