(* Multi-threaded serving (C09): connections are owned by one worker (Listener::dispatchPeer: fd
   modulo workers); a worker handles the events of its connections in the order it receives them;
   the handler reads the shared router and the request, and writes only per-connection state.
   An event of the global history is (connection, request). *)
From Coq Require Import List Arith Bool.
Import ListNotations.

Section Dispatch.
  Variable req resp : Type.
  Variable handle : req -> resp.          (* handler: a function of the request and the read-only router *)
  Variable w : nat.                       (* number of workers *)

  Definition owner (c : nat) : nat := Nat.modulo c w.

  (* per-worker state: the responses written so far on each of its connections, newest last *)
  Definition wstate := nat -> list resp.
  Definition state := nat -> wstate.      (* worker -> its connections *)

  Definition upd {A} (f : nat -> A) (k : nat) (v : A) : nat -> A := fun x => if Nat.eqb x k then v else f x.

  Definition step (s : state) (e : nat * req) : state :=
    let c := fst e in
    upd s (owner c) (upd (s (owner c)) c (s (owner c) c ++ [handle (snd e)])).

  Definition init : state := fun _ _ => [].
  Definition run (h : list (nat * req)) : state := fold_left step h init.

  Definition responses (s : state) (c : nat) : list resp := s (owner c) c.
  Definition requests_of (c : nat) (h : list (nat * req)) : list req :=
    map snd (filter (fun e => Nat.eqb (fst e) c) h).
End Dispatch.
