From Coq Require Import Ascii String List NArith ZArith Bool Arith Lia.
Require Import Bytes BytesLemmas NumParse Restartable TablesGen ParserModel ParserLemmas HandlerModel.
Import ListNotations.

Lemma reset_is_init st : reset_request st = pstate_init.
Proof. reflexivity. Qed.

Section H.
  Variable typed_other : N -> bytes -> option err.
  Variable set_cookie : bytes -> option (bytes * bytes).
  Notation on_input := (on_input typed_other set_cookie).
  Notation connection := (connection typed_other set_cookie).
  Notation parse := (parse typed_other set_cookie KRequest).
  Notation whole := (whole typed_other set_cookie KRequest).

  Definition is_wait (a : action) : bool := match a with AWait => true | _ => false end.

  (* every read does exactly one thing, and anything but "wait" leaves a fresh parser *)
  Theorem on_input_total maxsz st seg :
    match on_input maxsz st seg with
    | (AWait, _) => True
    | (_, st') => st' = pstate_init
    end.
  Proof.
    unfold HandlerModel.on_input. destruct (feed maxsz st seg); [|reflexivity].
    destruct (parse p) as [[| |e] st2]; cbn; auto.
  Qed.

  Lemma connection_app : forall a maxsz st b,
    connection maxsz st (a ++ b) =
    let '(x, st1) := connection maxsz st a in
    let '(y, st2) := connection maxsz st1 b in (x ++ y, st2).
  Proof.
    induction a as [|s a IH]; intros maxsz st b; cbn [app HandlerModel.connection].
    - destruct (connection maxsz st b); reflexivity.
    - destruct (on_input maxsz st s) as [act st1]. rewrite IH.
      destruct (connection maxsz st1 a) as [x st2]. destruct (connection maxsz st2 b) as [y st3].
      reflexivity.
  Qed.

  (* a message's reads: all but the last leave the parser waiting, the last completes it *)
  Definition completes (maxsz : nat) (reads : list bytes) : Prop :=
    exists acts a, fst (connection maxsz pstate_init reads) = acts ++ [a]
                   /\ forallb is_wait acts = true /\ is_wait a = false.

  Lemma connection_length : forall reads maxsz st, length (fst (connection maxsz st reads)) = length reads.
  Proof.
    induction reads as [|s rest IH]; intros maxsz st; [reflexivity|].
    cbn [HandlerModel.connection]. destruct (on_input maxsz st s) as [act st1].
    specialize (IH maxsz st1). destruct (connection maxsz st1 rest). cbn [fst length] in *. lia.
  Qed.

  Lemma completes_state_gen maxsz : forall reads st acts a,
    fst (connection maxsz st reads) = acts ++ [a] -> is_wait a = false ->
    snd (connection maxsz st reads) = pstate_init.
  Proof.
    induction reads as [|s rest IH]; intros st acts a H Ha.
    - cbn in H. destruct acts; discriminate.
    - cbn [HandlerModel.connection] in *.
      pose proof (on_input_total maxsz st s) as Ht.
      destruct (on_input maxsz st s) as [act st1].
      destruct rest as [|s2 rest'].
      + cbn in *. destruct acts as [|x [|y t]]; cbn in H; inversion H; subst.
        destruct a; cbn in Ha; try discriminate; exact Ht.
      + pose proof (connection_length (s2 :: rest') maxsz st1) as Hl.
        specialize (IH st1).
        destruct (connection maxsz st1 (s2 :: rest')) as [acts' st2]. cbn [fst snd] in *.
        destruct acts as [|x acts0]; cbn [app] in H.
        * inversion H; subst. cbn in Hl. discriminate.
        * inversion H; subst. apply (IH acts0 a); [reflexivity|exact Ha].
  Qed.

  Lemma completes_state maxsz reads : completes maxsz reads ->
    snd (connection maxsz pstate_init reads) = pstate_init.
  Proof.
    intros [acts [a [H [Hw Ha]]]]. apply (completes_state_gen maxsz reads pstate_init acts a H Ha).
  Qed.

  (* C04: a sequence of messages on one connection is handled message by message exactly as on
     fresh parsers *)
  Theorem connection_messages : forall maxsz (msgs : list (list bytes)),
    Forall (completes maxsz) msgs ->
    fst (connection maxsz pstate_init (concat msgs))
    = concat (map (fun reads => fst (connection maxsz pstate_init reads)) msgs)
    /\ snd (connection maxsz pstate_init (concat msgs)) = pstate_init.
  Proof.
    intros maxsz msgs H. induction H as [|m rest Hm Hrest IH]; [split; reflexivity|].
    cbn [concat map]. rewrite connection_app.
    pose proof (completes_state maxsz m Hm) as Hst.
    destruct (connection maxsz pstate_init m) as [x st1]. cbn [snd] in Hst. subst st1.
    destruct IH as [IH1 IH2].
    destruct (connection maxsz pstate_init (concat rest)) as [y st2]. cbn [fst snd] in *.
    subst. split; reflexivity.
  Qed.

  (* --- the live connection: nothing is delivered after a refusal --- *)
  Notation serve := (serve typed_other set_cookie).
  Definition is_handler (a : action) : bool := match a with AHandler _ => true | _ => false end.
  Definition is_respond (a : action) : bool := match a with ARespond _ => true | _ => false end.

  Theorem serve_length : forall reads maxsz st, length (serve maxsz st reads) = length reads.
  Proof.
    induction reads as [|s rest IH]; intros maxsz st; [reflexivity|]. cbn [HandlerModel.serve].
    destruct (on_input maxsz st s) as [[|m|c] st1]; cbn [length]; rewrite ?map_length, ?IH; reflexivity.
  Qed.

  Lemma waits_no_respond c : forall l : list bytes, In (ARespond c) (map (fun _ : bytes => AWait) l) -> False.
  Proof. induction l as [|y l IHl]; cbn; [tauto|]. intros [E|E]; [discriminate|auto]. Qed.

  (* whatever bytes follow a refused request - its own remainder, a request hidden in its body, further requests -
     the handler is not called again and no second response is sent: after the FIRST refusal every read is ignored *)
  Theorem nothing_after_refusal : forall reads maxsz st pre c post,
    serve maxsz st reads = pre ++ ARespond c :: post ->
    forallb (fun a => negb (is_respond a)) pre = true ->
    forallb is_wait post = true.
  Proof.
    induction reads as [|s rest IH]; intros maxsz st pre c post H Hn.
    - destruct pre; discriminate.
    - cbn [HandlerModel.serve] in H. destruct (on_input maxsz st s) as [[|m|c0] st1].
      + destruct pre as [|x pre']; [discriminate|]. inversion H; subst. cbn [forallb] in Hn.
        apply andb_prop in Hn. destruct Hn as [_ Hn]. exact (IH maxsz st1 pre' c post H2 Hn).
      + destruct pre as [|x pre']; [discriminate|]. inversion H; subst. cbn [forallb] in Hn.
        apply andb_prop in Hn. destruct Hn as [_ Hn]. exact (IH maxsz st1 pre' c post H2 Hn).
      + destruct pre as [|x pre'].
        * inversion H; subst. clear. induction rest; [reflexivity|exact IHrest].
        * inversion H; subst. cbn in Hn. discriminate.
  Qed.

  (* --- C14: the size rule --- *)

  Lemma parse_buf st : p_buf (snd (parse st)) = p_buf st.
  Proof.
    unfold ParserModel.parse, ParserModel.parse0, ParserModel.parse1, restart_step, parse2.
    repeat match goal with
    | |- context [match ?x with _ => _ end] => destruct x; cbn [snd p_buf]
    end; reflexivity.
  Qed.

  Lemma whole_buf acc : p_buf (snd (whole acc)) = acc.
  Proof. unfold ParserModel.whole. rewrite parse_buf. reflexivity. Qed.

  Definition act_of (r : pres * pstate) : action :=
    match r with
    | (PAgain, _) => AWait
    | (PDone, st) => AHandler (p_msg st)
    | (PErr e, _) => ARespond (err_code e)
    end.

  (* one message delivered in reads [segs] after [acc] was already buffered; every proper
     prefix (at read boundaries) is an incomplete message *)
  Theorem size_rule : forall maxsz segs acc stc,
    whole acc = (PAgain, stc) -> length acc <= maxsz -> segs <> [] ->
    (forall k, k < length segs -> fst (whole (acc ++ concat (firstn k segs))) = PAgain) ->
    if (length (acc ++ concat segs) <=? maxsz)%nat
    then fst (connection maxsz stc segs)
         = repeat AWait (length segs - 1) ++ [act_of (whole (acc ++ concat segs))]
    else exists j, j < length segs
         /\ fst (connection maxsz stc segs) = repeat AWait j ++ ARespond 413 :: skipn (S j) (fst (connection maxsz stc segs))
         /\ length (acc ++ concat (firstn j segs)) <= maxsz < length (acc ++ concat (firstn (S j) segs)).
  Proof.
    induction segs as [|s rest IH]; intros acc stc Hacc Hal Hne Hpre; [congruence|].
    pose proof (whole_buf acc) as Hbuf. rewrite Hacc in Hbuf. cbn [snd] in Hbuf.
    cbn [HandlerModel.connection]. unfold HandlerModel.on_input, feed. rewrite Hbuf.
    destruct (Nat.ltb_spec maxsz (length acc + length s)) as [Hover|Hfit].
    - (* this read crosses the limit *)
      destruct (connection maxsz (reset_request stc) rest) as [acts st2] eqn:Ec.
      destruct (Nat.leb_spec (length (acc ++ concat (s :: rest))) maxsz) as [Hle|Hgt].
      + cbn [concat] in Hle. rewrite !app_length in Hle. lia.
      + exists 0. split; [cbn; lia|]. split; [reflexivity|].
        cbn [firstn concat]. rewrite ?app_nil_r, ?app_length. cbn [length]. lia.
    - rewrite (merge_from_init typed_other set_cookie KRequest acc stc s Hacc).
      destruct rest as [|s2 rest'].
      + cbn [concat]. rewrite app_nil_r.
        destruct (Nat.leb_spec (length (acc ++ s)) maxsz) as [Hle|Hgt]; [|rewrite app_length in Hgt; lia].
        destruct (whole (acc ++ s)) as [[| |e] st'] eqn:E; cbn; reflexivity.
      + pose proof (Hpre 1 ltac:(cbn; lia)) as H1. cbn [firstn concat] in H1. rewrite app_nil_r in H1.
        destruct (whole (acc ++ s)) as [r st'] eqn:E. cbn [fst] in H1. subst r.
        assert (Hpre' : forall k, k < length (s2 :: rest') ->
                  fst (whole ((acc ++ s) ++ concat (firstn k (s2 :: rest')))) = PAgain).
        { intros k Hk. specialize (Hpre (S k) ltac:(cbn [length] in *; lia)).
          cbn [firstn concat] in Hpre. rewrite <- app_assoc. exact Hpre. }
        specialize (IH (acc ++ s) st' E ltac:(rewrite app_length; lia) ltac:(discriminate) Hpre').
        destruct (connection maxsz st' (s2 :: rest')) as [acts st2] eqn:Ec. cbn [fst] in *.
        replace (acc ++ concat (s :: s2 :: rest')) with ((acc ++ s) ++ concat (s2 :: rest'))
          by (cbn [concat]; rewrite <- app_assoc; reflexivity).
        destruct (Nat.leb_spec (length ((acc ++ s) ++ concat (s2 :: rest'))) maxsz) as [Hle|Hgt].
        * rewrite IH. cbn [length Nat.sub]. rewrite Nat.sub_0_r. reflexivity.
        * destruct IH as [j [Hj [Hacts Hlen]]].
          exists (S j). split; [cbn [length] in *; lia|]. split.
          -- cbn [repeat app skipn]. f_equal. exact Hacts.
          -- change (firstn (S j) (s :: s2 :: rest')) with (s :: firstn j (s2 :: rest')).
             change (firstn (S (S j)) (s :: s2 :: rest')) with (s :: firstn (S j) (s2 :: rest')).
             cbn [concat]. rewrite !(app_assoc acc s). exact Hlen.
  Qed.
End H.

(* --- C14: the time-out rule --- *)
Local Open Scope N_scope.

Theorem idle_rule step elapsed hT bT :
  idle step elapsed hT bT = true <->
  ((step < 2)%nat /\ (hT < elapsed \/ bT < elapsed)) \/ ((2 <= step)%nat /\ bT < elapsed).
Proof.
  unfold idle. destruct (Nat.ltb_spec step 2) as [H|H].
  - rewrite orb_true_iff, !N.ltb_lt. split; [intros; left; split; assumption|].
    intros [[_ H']|[H' _]]; [exact H'|lia].
  - rewrite N.ltb_lt. split; [intros; right; split; assumption|].
    intros [[H' _]|[_ H']]; [lia|exact H'].
Qed.

(* a request within both time-outs is never found idle; past the body time-out always *)
Theorem idle_never_early step elapsed hT bT :
  elapsed <= hT -> elapsed <= bT -> idle step elapsed hT bT = false.
Proof.
  intros H1 H2. unfold idle. destruct (step <? 2)%nat;
    rewrite ?orb_false_iff, ?N.ltb_ge; auto.
Qed.
Theorem idle_after_body_timeout step elapsed hT bT : bT < elapsed -> idle step elapsed hT bT = true.
Proof.
  intros H. unfold idle. apply N.ltb_lt in H. rewrite H. destruct (step <? 2)%nat; [apply orb_true_r|reflexivity].
Qed.
Theorem idle_head_after_header_timeout step elapsed hT bT :
  (step < 2)%nat -> hT < elapsed -> idle step elapsed hT bT = true.
Proof.
  intros Hs H. unfold idle. apply Nat.ltb_lt in Hs. rewrite Hs. apply N.ltb_lt in H. rewrite H. reflexivity.
Qed.
