"""C15 — every client request is answered by exactly its own response."""
import pv
from diffcheck import Spec, run_spec

HARNESSES = [("h_client", "plain", ())]


def strip_conn(line):
    """The model does not count TCP connections: the total accepted by the server is checked by the oracle."""
    return " ".join(x for x in line.split() if not x.startswith(("maxconn=", "accepted=")))


class C15(Spec):
    pid = "C15"
    area = "client"
    harness = "h_client"
    variant = "plain"
    shard = 2
    timeout = 900
    env = {"PV_CASE_TIMEOUT": "60"}
    rule = ("Http::Client (1-3 threads, 1-4 connections per host, request time-out 600 ms) against a scripted raw loopback "
            "server; 1-14 requests issued at once (well above the connection limit) and a second wave 100 ms after the "
            "time-out; every request asks for its own number and the server answers 'resp-<number>': at once, delayed, "
            "byte-dribbled, chunked, with Connection: close and closing (also with requests queued behind it), closing without answering, answering at the very moment the request's own time-out expires (response and timer event in one batch), requests with their own time-outs or none mixed on one connection slot, never, half an answer and then nothing, the whole head and most of the body and then nothing, or late (300 ms after the time-out, so the late answer "
            "arrives while a second-wave request is in flight on the same pool slot). Per request: fulfilled with which "
            "number / rejected / never settled, promises settled twice, and the most simultaneous established client "
            "connections (sampled from /proc/net/tcp) against the limit; compared with the model run on the same timed "
            "event history. L cases: thousands of rounds of a request issued 0-300 us after another on a one-connection client (queued just as the connection is released). non-trivial = a case with a time-out or more requests than connections; distinct by case line")
    assumptions = ["wall-clock margins: server delays (<= 250 ms) stay well below the 600 ms time-out",
                   "with several connections and a server that closes some of them, which queued request is handed to the closing connection depends on the order the responses arrive in: model and implementation are compared exactly on the requests that start on fresh connections (and on everything when there is one connection); the oracle decides the others",
                   "a request handed over to a connection the server is closing is lost with it (the HTTP keep-alive race): it must be settled (rejected), the next one goes out on a new connection",
                   "for a request answered at the moment its time-out expires either outcome is allowed; the model is not run on those cases (oracle only)",
                   "simultaneous connections are bounded through the total accepted (a slot reconnects only after a close), not sampled",
                   ]

    def same(self, case, impl, model):
        t = case.split()
        if t[0] == "K" and any(x[0] == "z" for x in t[4].split(",") + t[5].split(",")):
            # an answer followed at once by a reset: whether the client reads the answer before the reset destroys it, and whether the
            # request handed over next is sent before the reset arrives, is the kernel's timing - decided by the oracle only (settled
            # once, own response or rejected, no hang, no crash)
            return True
        if t[0] == "K" and any(x[0] in "xXz" for x in t[4].split(",")) and not impl.startswith(("CRASH", "HANG")):
            # a server that closes connections: WHICH queued request is handed to the closing connection depends on which response
            # arrives first, and (since the client repairs of the review round) WHETHER the hand-over still finds it open on whether
            # the end of stream has been seen by then. Compared exactly: the requests that start on fresh connections;
            # for the others the oracle decides (settled, own response or rejected)
            m = int(t[2])
            fi = dict(x.split("=") for x in impl.split()[1:]); fm = dict(x.split("=") for x in model.split()[1:])
            return fi["r"].split(",")[:m] == fm["r"].split(",")[:m] and fi["twice"] == fm["twice"]
        return strip_conn(impl) == strip_conn(model)


    def corpus(self):
        return ["K 1 1 600 l e", "K 1 1 600 l,a a", "K 1 2 600 n,a a,a", "K 1 1 600 l,l,a,l,a a,e",
                "K 2 2 600 n,l,a,b,c,n,a,a e,e,a", "K 1 2 600 x,a a,x", "K 1 8 0 a,b,c,d -",
                "K 1 1 600 h a", "K 1 2 600 h,h,a,a a,e,a", "K 1 1 600 H a", "K 1 2 600 H,H,a,a a,e,a",
                "K 1 2 1900 g,g,a -", "K 1 1 2500 g a",
                # found by the second seeding round on the unmodified tree (all fixed): hand-over to a closing connection,
                # stale timer event, second time-out on one slot, lost wake-up
                "K 1 1 0 x@0,a@0,a@0 -", "K 1 1 600 x,a,a -", "K 1 1 600 X,a,a -", "K 1 2 600 X,x,a,a,a a",
                "K 1 1 600 n@200,n@200,a@0 -", "K 1 1 600 n@200,n@300,a@0,n@250,a -",
                "K 1 1 600 U a 300", "K 1 1 600 P a 300", "K 1 1 600 S a 300", "K 1 1 600 W a 300", "K 1 1 600 D a 300",
                # an interim response (100 Continue / 102 Processing) in front of the final one (fixed in the fourth round)
                "K 1 1 600 q a", "K 1 1 600 Q a", "K 1 1 600 q,Q,a,q,Q,a q,Q", "K 2 2 600 Q,q,Q,q,a,d -",
                "K 1 1 5000 " + ",".join(["T@20,a@0"] * 12) + " -", "K 1 1 5000 " + ",".join(["T@20,a@5000"] * 12) + " -",
                "K 2 2 5000 " + ",".join(["T@25,a@0,a@3000"] * 8) + " -",
                "L 1 4000", "L 2 3000", "C 1 500", "C 2 300", "C 1 0",
                # found by the review of the fourth/fifth round's client fixes (all fixed): several requests for a refusing host
                # (abort), a request handed over to a connection the server has just reset (self-deadlock of the client)
                "C 1 500 3", "C 2 300 8", "C 1 0 5", "K 1 1 600 d,z,a -", "K 1 1 600 z,a,a -", "K 2 1 600 a,z,a,z,a a", "K 2 1 600 d,z,a -"]

    def gen(self, rng, tier):
        cases = list(self.corpus())
        n = 30 if tier == "quick" else 400
        for _ in range(n):
            m = rng.randint(1, 4)
            k = rng.randint(1, 14)
            w1 = []
            slow = 0
            for _i in range(k):
                r = rng.random()
                if r < 0.25 and slow < 3 * m:
                    b = rng.choice("nlhH"); slow += 1
                    if rng.random() < 0.3:
                        b += "@%d" % rng.choice([200, 300, 450])     # its own, shorter time-out
                elif r < 0.33:
                    b = rng.choice("xX")
                elif r < 0.38 and k <= m:
                    b = rng.choice("UPSWD")      # (no request queued behind: bytes sent while the next one is in flight ARE its response)
                else:
                    b = rng.choice("adbcqQ")
                    if rng.random() < 0.2:
                        b += "@%d" % rng.choice([0, 0, 2000])
                w1.append(b)
            w2 = [rng.choice("adbce") for _ in range(rng.randint(0, 6))]
            cases.append("K %d %d 600 %s %s" % (rng.randint(1, 3), m, ",".join(w1), ",".join(w2) if w2 else "-"))
        for _ in range(3 if tier == "quick" else 40):
            m = rng.randint(1, 2)
            tmo = rng.choice([15, 20, 30])
            other = rng.choice(["a@0", "a@5000", "d@0", "a@%d" % (tmo * 3)])
            cases.append("K %d %d 5000 %s -" % (rng.randint(1, 2), m, ",".join(["T@%d,%s" % (tmo, other)] * rng.randint(6, 12))))
        if tier != "quick":
            cases += ["L 1 20000", "L 2 20000", "L 3 10000"]
        return cases

    def oracle(self, case, impl):
        what = self.oracle1(case, impl)
        if what and "was answered by the server but its promise was R" in what and not getattr(self, "_again", False):
            # the scripts run on margins of a few hundred milliseconds between the server's delays and the client's time-outs: on a
            # loaded machine a time-out can win; the case is run again, alone, and counts only if it fails again
            self._again = True
            try:
                again, _ = pv.run_parallel([pv.build_harness(self.harness, self.variant)], [case], shard=1, env=getattr(self, "env", None) or {"PV_CASE_TIMEOUT": "60"})
                what = self.oracle1(case, again[0])
                if what:
                    what += " [also when run again alone]"
            finally:
                self._again = False
        return what

    def oracle1(self, case, impl):
        if impl.startswith(("CRASH", "HANG")):
            return "client harness %s on %s (the client stopped making progress)" % (impl, case)
        t = case.split()
        f = dict(x.split("=") for x in impl.split()[1:])
        if t[0] == "C":
            if impl != "C refused=R live=F":
                return ("a request to a port nobody listens on, then one to a live server through the same client: %s (expected the first "
                        "rejected, the second fulfilled) (%s)" % (impl, case))
            return None
        if t[0] == "L":
            if f["stuck"] != "0":
                return ("a request issued while the only connection was being released was never settled although the server answers "
                        "every request at once (%s round(s) of %s)" % (f["stuck"], case))
            if f["wrong"] != "0":
                return "%s request(s) were fulfilled with the response to another request (%s)" % (f["wrong"], case)
            return None
        toks = t[4].split(",") + ([] if t[5] == "-" else t[5].split(","))
        behs = [x.split("@")[0] for x in toks]
        tmos = [int(x.split("@")[1]) if "@" in x else int(t[3]) for x in toks]
        outs = f["r"].split(",")
        closing = any(b in "xXWz" for b in behs)   # a request handed over to a connection that is being closed may be lost with it
        for i, (b, o) in enumerate(zip(behs, outs)):
            if o.startswith("F") and o != "F%d" % i:
                return "request %d was fulfilled with the response to request %s (%s)" % (i, o[1:], case)
            if o == "P":
                return "request %d (%s) was never settled (%s)" % (i, b, case)
            # (the first <limit> requests go out on fresh connections: they are never handed over)
            if b in "UPSW" and o != "F%d" % i and not (closing and i >= int(t[2])):
                return "request %d was answered by the server but its promise was %s (%s)" % (i, o, case)
            if b == "D" and o != "R":
                return "request %d was answered with a response that cannot be parsed but its promise was %s (%s)" % (i, o, case)
            if b == "z" and o in ("F%d" % i, "R"):
                continue
            if b in "adbcexgqQ" and o != "F%d" % i and not (closing and i >= int(t[2])):
                return "request %d was answered by the server but its promise was %s (%s)" % (i, o, case)
            if b in "nlhHX" and (tmos[i] > 0 or b == "X") and o != "R":
                return "request %d was not answered (%s) but its promise was %s (%s)" % (i, b, o, case)
        if f["twice"] != "0":
            return "a request's promise was settled more than once (%s)" % case
        # a pool slot opens a new connection only after its previous one was closed (time-out or server close)
        closes = sum(1 for b in behs if b in "nlhHxXzTUPSWD")
        if int(f["accepted"]) > int(f["limit"]) + closes:
            return "the server accepted %s connections: more than the limit %s plus the %d connections closed by time-out/server (%s)" % (f["accepted"], f["limit"], closes, case)
        return None

    def nontrivial(self, case, impl):
        t = case.split()
        if t[0] in "LC":
            return True
        return any(b in t[4] for b in "nlhH") or len(t[4].split(",")) > int(t[2])

    def kind(self, case, impl):
        t = case.split()
        if t[0] == "L":
            return "queued-as-released"
        if t[0] == "C":
            return "connection-refused"
        if "T" in t[4]:
            return "response-at-time-out"
        if any(b in t[4] for b in "xXz") and len(t[4].split(",")) > int(t[2]):
            return "server-close-with-queue"
        return "m%s-%s%s" % (t[2], "timeout" if any(b in t[4] for b in "nlhH") else "answered", "-overflow" if len(t[4].split(",")) > int(t[2]) else "")


def run(rep, tier, seed):
    return run_spec(C15(), rep, tier, seed)


def replay(obj):
    s = C15()
    case = obj["case"]
    exe = pv.build_harness(s.harness, s.variant)
    drv = pv.build_model_driver()
    i, _ = pv.run_parallel([exe], [case], env=s.env)
    m, _ = pv.run_parallel([drv, s.area], [case])
    print("case :", case); print("impl :", i[0]); print("model:", m[0])
    w = s.oracle(case, i[0])
    print("oracle:", w or "every request settled once: answered ones with their own response, unanswered ones rejected; connection limit respected")
    return 1 if w else 0
