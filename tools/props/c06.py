"""C06 — queued writes reach the peer completely, in order and exactly once."""
import itertools
import pv
from diffcheck import Spec, run_spec

HARNESSES = [("h_transport", "plain", ())]


# hand-computed: which send calls carry MSG_MORE (flag lost on the re-queued tail after a would-block before fix of the third round)
MORE_CASES = {"X L 1m,20 w": "MM-", "X L 5m,20 a1,w": "MMM-", "X L 1m,20 a999999": "M-", "X L 3m,4m,5 w,a2,w": "MMMMM-"}


class C06(Spec):
    pid = "C06"
    area = "transport"
    harness = "h_transport"
    variant = "plain"
    shard = 40
    timeout = 900
    env = {"PV_CASE_TIMEOUT": "40"}
    rule = ("1-4 writes of sizes 1..200 000 bytes issued through Transport::asyncWrite on a live listener, from the loop thread "
            "and from a foreign thread, with the outcome of each successive send call on that connection scripted through "
            "the PISTACHE_VERIF hook: every placement of one or two would-blocks and of short writes (1, 7, size-1 bytes) "
            "over the first calls (exhaustive for scripts up to 4 outcomes over {accept-all, short, would-block}), memory and file buffers (sendfile) mixed with a late reader, 2-8 foreign threads writing concurrently on one connection (whole buffers, each once, per-thread order), a really blocked 8-32 MB write whose descriptor is then reported readable and writable in one poll result (worker kept busy meanwhile), plus seeded "
            "longer scripts. The peer's bytes are compared with the concatenation of the buffers, each promise's value with "
            "the buffer size, and the number of send calls with the model's. non-trivial = script containing a would-block "
            "or a short write; distinct by case line")
    assumptions = ["the scripted would-block is returned without the kernel buffer being full, so the writable event follows at once",
                   "the outcome of sendfile calls is not scripted (file buffers block for real when the peer reads late)"]

    def gen(self, rng, tier):
        cases = []
        alphabet = ["a999999", "a1", "a7", "w"]
        for th in "LF":
            for sizes in ([10], [5000], [3, 4], [100, 1, 100]):
                for L in range(0, 4 if tier == "quick" else 5):
                    for sc in itertools.product(alphabet, repeat=L):
                        cases.append("X %s %s %s" % (th, ",".join(map(str, sizes)), ",".join(sc) if sc else "a999999"))
        # one poll result reporting the descriptor readable and writable while a write is pending
        for busy, mb in ([(300, 8), (200, 16)] if tier == "quick" else [(b, m) for b in (100, 300, 600) for m in (6, 8, 16, 32)]):
            cases.append("E %d %d" % (busy, mb << 20))
        # ... and the handler of the readable half drains the queue itself (flush): the writable half finds nothing queued
        # (6 MB: the remainder after the first fill fits the drained socket in one go). Worker abort before fix of 2026-09-26.
        for busy, sz in ([(300, 6 << 20), (400, 5 << 20)] if tier == "quick" else [(b, m) for b in (200, 300, 500) for m in (5 << 20, 6 << 20, 8 << 20)]):
            cases.append("E %d %d f" % (busy, sz))
        # memory and file buffers (sendfile) mixed, the peer starts reading late so that large buffers really block
        cases += list(MORE_CASES)
        fcases = ["F L 0 r3,t1048576,r5", "F L 100 t300000", "F L 0 t50,r5", "F F 100 r10,t200000,f3000,r1",
                  "F L 0 r100,f5000,r100", "F L 300 f8000000", "F L 300 r1000,f6000000,r1000,f300000", "F F 200 f4000000,r4000000,f10",
                  "F L 0 f1", "F L 300 f3000000,f3000000", "F F 0 f70000,f70000,r1"]
        for _ in range(6 if tier == "quick" else 120):
            spec = ",".join("%s%d" % (rng.choice("rf"), rng.choice([1, 100, 4096, 65536, 1000000, 5000000, rng.randint(1, 3000000)])) for _ in range(rng.randint(1, 4)))
            fcases.append("F %s %d %s" % (rng.choice("LF"), rng.choice([0, 100, 300]), spec))
        cases.extend(fcases)
        # several foreign threads writing concurrently on one connection: whole buffers, each once, per-thread order
        gcases = ["G 4 50 1000 0", "G 8 20 100000 200", "G 2 3 10 0", "G 6 100 3000 100",
                  # ... each write followed by Transport::flush() in the writing thread, as ResponseStream::flush()/ends() do
                  "G 4 50 1000 0 1", "G 8 20 100000 200 1", "G 8 200 100 0 1"]
        for _ in range(3 if tier == "quick" else 40):
            gcases.append("G %d %d %d %d %d" % (rng.randint(2, 8), rng.randint(1, 60), rng.choice([1, 10, 1000, 5000, 70000, 200000]), rng.choice([0, 100, 300]), rng.choice([0, 1])))
        cases.extend(gcases)
        n = 150 if tier == "quick" else 3000
        for _ in range(n):
            sizes = [rng.choice([1, 2, 100, 4096, 65536, 200000, rng.randint(1, 50000)]) for _ in range(rng.randint(1, 4))]
            sc = []
            for _k in range(rng.randint(1, 12)):
                r = rng.random()
                if r < 0.35:
                    sc.append("w")
                elif r < 0.7:
                    sc.append("a%d" % rng.choice([1, 7, 100, 4095, 4096, max(1, sizes[0] - 1), sizes[0]]))
                else:
                    sc.append("a999999")
            cases.append("X %s %s %s" % (rng.choice("LF"), ",".join(map(str, sizes)), ",".join(sc)))
        return cases

    def oracle(self, case, impl):
        if impl.startswith(("CRASH", "HANG")):
            return "transport harness %s on %s" % (impl, case)
        t = case.split()
        f = dict(x.split("=") for x in impl.split()[1:])
        if t[0] == "G":
            n = int(t[1]) * int(t[2])
            if f["torn"] != "0":
                return "buffers written concurrently by %s threads arrived interleaved or corrupted (%s)" % (t[1], impl)
            if int(f["whole"]) != n or int(f["bytes"]) != n * (17 + int(t[3])):
                return "%d buffers were written by %s threads, the peer received %s whole buffers / %s bytes" % (n, t[1], f["whole"], f["bytes"])
            if f["misordered"] != "0":
                return "%s buffers arrived out of their thread's issue order" % f["misordered"]
            if int(f["fulfilled"]) != n or f["other"] != "0":
                return "%s of %d promises were fulfilled with the buffer size (%s rejected or wrong)" % (f["fulfilled"], n, f["other"])
            return None
        if t[0] == "E":
            want = int(t[2]) + (4 if len(t) > 3 and t[3] == "f" else 0)     # f: the handler queued 4 more bytes
            if int(f["bytes"]) != want or f["content"] != "1" or f["p"] != t[2]:
                return ("a write was pending when its descriptor was reported readable and writable together: the peer received %s of %s bytes, promise %s"
                        % (f["bytes"], t[2], {"P": "never settled", "R": "rejected"}.get(f["p"], "fulfilled with " + f["p"])))
            return None
        specs = t[3].split(",") if t[0] == "F" else t[2].split(",")
        sizes = [int(x[1:]) for x in specs] if t[0] == "F" else [int(x.rstrip("m")) for x in specs]
        shrunk = [t[0] == "F" and x[0] == "t" for x in specs]       # a file that shrinks to 100 bytes after it was queued
        want_bytes = sum(min(s, 100) if sh else s for s, sh in zip(sizes, shrunk))
        if int(f["bytes"]) != want_bytes or f["content"] != "1":
            return "peer received %s bytes (content ok=%s) instead of the %d bytes issued, script %s" % (f["bytes"], f["content"], want_bytes, t[3])
        vals = f["p"].split(",")
        for i, (v, s) in enumerate(zip(vals, sizes)):
            if shrunk[i]:
                if v != "R" and not (s <= 100 and v == str(s)):
                    return "write %d: a file that became shorter than queued: promise %s (expected rejected; the worker must not retry for ever)" % (i, v)
                continue
            if v != str(s):
                return "write %d of %d bytes: promise %s (expected fulfilled with %d), script %s" % (i, s, {"P": "never settled", "R": "rejected"}.get(v, "fulfilled with " + v), s, t[3])
        if f["twice"] != "0":
            return "a write's promise was settled more than once"
        if t[0] == "X" and case in MORE_CASES and f.get("more") != MORE_CASES[case]:
            return ("MSG_MORE per send call: %s, expected %s (every send made for a write issued with MSG_MORE carries the flag, also after a "
                    "would-block) for %s" % (f.get("more"), MORE_CASES[case], case))
        return None

    def same(self, case, impl, model):
        impl = " ".join(x for x in impl.split() if not x.startswith("more="))
        if case.startswith("F"):   # sendfile calls are not counted by the send hook
            strip = lambda l: " ".join(x for x in l.split() if not x.startswith("calls="))
            return strip(impl) == strip(model)
        return impl == model

    def nontrivial(self, case, impl):
        if case.startswith(("E", "F", "G")):
            return True
        sc = case.split()[3]
        return "w" in sc or "a1" in sc or "a7" in sc

    def kind(self, case, impl):
        t = case.split()
        if t[0] == "E":
            return "readable+writable"
        if t[0] == "F":
            return "file-buffers"
        if t[0] == "G":
            return "concurrent-producers"
        return "%s-%dwrites-%s" % (t[1], len(t[2].split(",")), "wouldblock" if "w" in t[3].split(",") else "accept")


def run(rep, tier, seed):
    return run_spec(C06(), rep, tier, seed)


def replay(obj):
    s = C06()
    case = obj["case"]
    exe = pv.build_harness(s.harness, s.variant)
    drv = pv.build_model_driver()
    i, _ = pv.run_parallel([exe], [case], env=s.env)
    m, _ = pv.run_parallel([drv, s.area], [case])
    print("case :", case); print("impl :", i[0]); print("model:", m[0])
    w = s.oracle(case, i[0])
    print("oracle:", w or "all bytes in order, every promise fulfilled once with its full size")
    return 1 if w else 0
