(* Connection lifecycle of one worker (C08): Transport::handlePeer / handleIncoming /
   handlePeerDisconnection / removePeer and TransportImpl::checkIdlePeers as a transition system
   over connection events.  The log records the handler callbacks and the release of the
   descriptor with its per-connection tables (peers, toWrite, epoll interest, close). *)
From Coq Require Import List Arith Bool.
Import ListNotations.

Inductive ev :=
| EAccept (fd : nat)      (* the acceptor hands a new descriptor to the worker *)
| EData (fd : nat)        (* readable: recv returns bytes *)
| EEof (fd : nat)         (* readable: recv returns 0 (close, shutdown(WR)) *)
| EErr (fd : nat)         (* readable: recv fails with something else than EAGAIN (RST) *)
| EIdle (fd : nat)        (* the idle scan answered 408 and its write settled *)
| EWriteFail (fd : nat).  (* a send on the descriptor failed: the write's promise is rejected *)

Inductive cb := CConn | CInput | CDisc | CRelease.

Record lstate := mkL { peers : list nat; log : list (nat * cb) }.
Definition linit : lstate := mkL [] [].

Definition has (fd : nat) (s : lstate) : bool := existsb (Nat.eqb fd) (peers s).
Definition drop (fd : nat) (l : list nat) : list nat := filter (fun x => negb (Nat.eqb fd x)) l.

(* handlePeerDisconnection: onDisconnection, then removePeer (tables, epoll, close) *)
Definition disconnect (fd : nat) (s : lstate) : lstate :=
  mkL (drop fd (peers s)) (log s ++ [(fd, CDisc); (fd, CRelease)]).

Definition lstep (s : lstate) (e : ev) : lstate :=
  match e with
  | EAccept fd => if has fd s then s   (* the kernel never hands out a descriptor that is still open *)
                  else mkL (fd :: peers s) (log s ++ [(fd, CConn)])
  | EData fd => if has fd s then mkL (peers s) (log s ++ [(fd, CInput)]) else s
  | EEof fd | EErr fd | EIdle fd => if has fd s then disconnect fd s else s
  | EWriteFail _ => s                  (* the read side reports the disconnection *)
  end.

Definition lrun (evs : list ev) : lstate := fold_left lstep evs linit.

(* the callback grammar per descriptor: (Conn Input* Disc Release)* *)
Inductive phase := Out | Inside | Told | Bad.
Definition phase_step (p : phase) (c : cb) : phase :=
  match p, c with
  | Out, CConn => Inside
  | Inside, CInput => Inside
  | Inside, CDisc => Told
  | Told, CRelease => Out
  | _, _ => Bad
  end.
Definition phase_of (fd : nat) (l : list (nat * cb)) : phase :=
  fold_left (fun p x => if Nat.eqb (fst x) fd then phase_step p (snd x) else p) l Out.

Definition count_cb (fd : nat) (c : cb) (l : list (nat * cb)) : nat :=
  length (filter (fun x => andb (Nat.eqb (fst x) fd)
                             match snd x, c with
                             | CConn, CConn | CInput, CInput | CDisc, CDisc | CRelease, CRelease => true
                             | _, _ => false end) l).

(* the log one connection leaves behind, as the harness prints it (Release hidden, Input collapsed) *)
Definition show_cb (c : cb) : nat := match c with CConn => 0 | CInput => 1 | CDisc => 2 | CRelease => 3 end.
