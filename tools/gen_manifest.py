#!/usr/bin/env python3
"""Writes MANIFEST.json from the table below (kept in one place so it stays valid)."""
import json
import os
ROOT = os.path.dirname(os.path.dirname(os.path.abspath(__file__)))

CHECKS = {
 "C09": dict(
    text="Partial. Theorems C09_one_response_from_own_request_partial (for every global history, i.e. any interleaving of the connections' events over w workers with connection ownership fd mod w, a connection's responses are exactly the handler applied to its own requests, one each, in order) and C09_interleaving_independent_partial; C09_no_lost_wakeup_partial, C09_shutdown_ends_loop_partial and C09_shutdown_around_loop_start_partial (shutdown() issued before a worker has entered its loop: the flag is looked at before the first poll; C09_refuted_flag_cleared_on_entry for a loop that resets it) for the shutdown protocol of an event loop (flag stored before the wake-up descriptor is notified, flag checked at every poll return: once shutdown() has run, the loop's next poll return ends it, whatever else happens). Data-race freedom of the C++ and the thread joins cannot be theorems about an executable Gallina model: they are decided by running the real endpoint built with -fsanitize=thread (1-6 workers, 1-12 keep-alive clients, 5-300 numbered requests over every method table of a shared router and table-less methods, shutdown() after or 0-200 ms into the load; shutdown() right after serveThreaded() with the threads counted before the destructor; the blocking serve() polled from another thread; requestLoad chained from its own continuation under load): any ThreadSanitizer report, wrong or missing response, shutdown that does not return or framework thread left alive is a violation.",
    note="Closed under the global context. The deciding evidence for the race/shutdown half is ThreadSanitizer on OS-produced schedules (not a proof, not exhaustive). Trusted: harness/h_mt.cc, TSan runtime.",
    technique="Coq proof of the dispatch logic (per-connection independence for every interleaving) + ThreadSanitizer run of the live multi-worker endpoint with response matching and shutdown under load",
    design="§2 C09"),
 "C15": dict(
    text="Partial. Theorems over the client transition system (pool of m connections with at most one request in flight each, per-connection server answer stream, overflow queue, hand-over on release): C15_fulfilled_only_with_own_response, C15_settled_at_most_once (a settled outcome never changes, whatever follows), C15_answer_fulfils, C15_timeout_rejects, C15_connection_limit, for every history of issue/response/time-out/server-close events; C15_refuted_without_close_on_timeout exhibits the 4-event history on which the pinned behaviour fulfils request 1 with the answer to request 0. Tied to /repo by Http::Client (1-3 threads, 1-4 connections) against a scripted raw server (immediate, delayed, dribbled, chunked, closing, never, late answers; two waves; more requests than connections) compared per request with the model run on the same timed history. Residue: thread interleavings inside the client are those the OS produces; timers and sockets are the oracle; simultaneous connections are bounded through the total the server accepts.",
    note="Closed under the global context. Trusted: harness/h_client.cc (scripted server, margins), the timed-event replay in ocaml/driver.ml (client_case).",
    technique="Coq proof (invariant over client event histories, refutation of the pre-fix behaviour) + differential correspondence against a scripted live server",
    design="§2 C15"),
 "C08": dict(
    text="Partial. Theorems C08_callback_grammar (for every history of accept/data/EOF/error/idle-time-out/write-failure events and every descriptor, the callbacks follow (connection input* disconnection release)* and the peer table holds exactly the descriptors still connected), C08_every_prefix_well_formed, C08_once_each (disconnections = releases = connections, +1 while open), C08_no_peer_left, C08_peer_table_has_no_duplicates, by induction over event histories of the worker's transition system; C08_worker_never_touches_foreign_descriptor (with the write table prepared by the acceptor thread and poll results handled in two halves, the guarded dispatch never re-arms a descriptor outside its peer table, for every history) and C08_refuted_unguarded_writable_half (the 5-event history on which the first version of a fix aborted the worker); C08_connection_receives_only_its_own_writes and C08_write_queue_released_with_connection over histories of connections reusing descriptor numbers, queued writes, deliveries, disconnections and writes made for a connection that has ended (QLate: dropped by the id check; C08_refuted_write_matched_by_number_only is the code before); C08_open_files_are_the_queued_ones / C08_no_file_left_after_drop for files queued by serveFile. Tied to /repo by live listeners (raw Tcp::Handler and Http::Endpoint with 600 ms time-outs, 1-3 workers, 1-12 concurrent clients per round, up to 30 rounds) whose per-peer callback logs, callbacks-after-disconnection count /proc/self/fd delta against the idle baseline, the entries left in the workers' peers / toWrite / timers tables after every round and what fresh connections on the same descriptor numbers receive are compared with the model's log of the same history. Residue: descriptor release is observed through /proc/self/fd, epoll interest and close() are not instrumented; kernel event delivery is the oracle.",
    note="Closed under the global context. Trusted: harness/h_lifecycle.cc, the behaviour->event translation in ocaml/driver.ml (lifecycle_case).",
    technique="Coq proof (invariant by induction over connection-event histories) + differential correspondence of callback logs and descriptor balance on live listeners",
    design="§2 C08"),
 "C05": dict(
    text="Partial. Theorems C05_emitted_is_rendering (whatever the fixed-length writer emits is exactly the rendering status line/headers/cookies/Content-Length/blank line/body, the reported size is its length and fits the cap), C05_refused_iff_too_large (refused with nothing emitted exactly when the rendering exceeds the maximum response size), C05_exact_at_cap (size = cap accepted, cap-1 refused), C05_framing (Content-Length = |body|, blank line, body at the end), for every code, header list, cookie list and body; C05_stream_decodes (for every list of non-empty chunks the chunked body closed by the zero-length chunk decodes with an independent reader to exactly the data written) and C05_chunk_size_line_roundtrip (hex size line for every size). Streams are exercised with every way of putting data into a ResponseStream (write incl. zero bytes, << of C strings, char arrays, chars, bools, integers, flushes, a small buffer). That the real writer's bytes ARE these renderings and that client requests are well-formed is decided by the correspondence check on bytes captured from a live endpoint / from Http::Client.",
    note="Closed under the global context. Trusted: harness/h_wire.cc, canonicalisation of header order in ocaml/driver.ml.",
    technique="Coq proof (size-cap decision and framing of the writer model) + differential correspondence on bytes captured from a live endpoint",
    design="§2 C05"),
 "C02": dict(
    text="Full on the models, tied to the code by correspondence. Client -> server is a theorem: C02_client_request_parses_back and C02_client_request_fields (for every method of the regenerated table, path, query pairs, cookies, application headers, Host value and body that need no escaping - the exact character conditions are the wf_* predicates - the request parser model run on what the client serialiser model writes ends Done exactly at the last byte with the same method, resource, version, query pairs, cookies, raw headers in order and body; first-occurrence-wins collections, C02_distinct_keys_keep_all for pairwise different keys). Server -> client is a theorem for fixed-length responses: C02_server_response_fields (every status code, application headers, Set-Cookie values the cookie parser reads, body: the response parser model run on what putOnWire writes ends Done at the last byte with the same status, cookies, headers, body). Streamed responses: C02_stream_response_body (every sequence of non-empty chunks written through the response stream is parsed by the response parser model's own chunk loop to the concatenation of the chunks, Done at the last byte). The tie of the serialiser and parser models to the code is the live correspondence check (requests built with the client builder are captured from the socket, compared with the serialiser model and parsed by the real server parser; responses from a live endpoint are read back). Uses C01 (segmentation independence) and the value round trips C16-C18.",
    note="Closed under the global context. The theorem is parametric in the typed-header parsers (typed_ok hypotheses for User-Agent and Host) and in Cookie::fromRaw. Trusted: harness/h_wire.cc (Q mode), tools/gen_tables.py.",
    technique="Coq proof (serialiser model composed with the parser model: parse (write request) = request, by automaton scanning lemmas) + differential correspondence on captured client requests and endpoint responses",
    design="§2 C02"),
 "C06": dict(
    text="Partial. Theorems C06_stream_and_settle_once (for every queue of writes and every pattern of short writes and would-blocks over the successive send calls: received ++ pending = concatenation of the buffers in issue order; a promise settled at most once and never while queued) C06_fulfilled_with_full_size, C06_writable_never_ignored (a writable report always leads to a drain attempt, also when reported together with readable; the pinned dispatch is refuted) and C06_all_fulfilled_when_accepted (from every reachable state a drain against an accepting socket delivers everything and fulfils every queued promise in order with its full size), by induction over the drain loop against an arbitrary socket oracle. Tied to /repo by scripting the outcome of every send call of a live Transport through the PISTACHE_VERIF hook (all scripts up to 3-4 outcomes, loop thread and foreign thread) and comparing bytes, promise values and call counts. Residue: kernel buffering/real EAGAIN timing is the oracle; liveness is observed, not proved; sendfile buffers not exercised.",
    note="Closed under the global context. The cross-thread queue is taken as FIFO (C13). Trusted: harness/h_transport.cc, hook in transport.cc.",
    technique="Coq proof (invariant over the write-drain loop with a socket oracle) + fault-scripted differential correspondence on a live transport",
    design="§2 C06"),
 "C07": dict(
    text="Partial. Theorems C07_returns_to_loop_on_would_block (the first would-block ends the drain attempt: no further send on that descriptor in this event, tail kept at the front with its progress, write interest armed), C07_bounded_calls, C07_resume_delivers. Tied to /repo by a live single-worker listener with a really stalled peer (kernel buffers full): another connection must be answered within a third of the stall, the stalled descriptor must not be hammered, and everything must arrive after the stall. Residue: wall-clock bounds and epoll re-arm are runtime behaviour.",
    note="Closed under the global context. Trusted: harness/h_transport.cc timing margins, hook in transport.cc.",
    technique="Coq proof of the loop-control logic + live stalled-peer measurement through the send hook",
    design="§2 C07"),
 "C16": dict(
    text="Partial. Theorems C16_content_length_roundtrip (all of 0..2^64-1, via a general decimal print/parse round-trip lemma), C16_connection/encoding/expect_roundtrip (every enum value), C16_host_roundtrip, C16_server_roundtrip (every list of product tokens without blanks), C16_cache_control_roundtrip (every list of the twelve directives with delta-seconds 0..LONG_MAX), C16_lookup_first_occurrence and C16_lookup_any_capitalisation (the case-insensitive collection returns the first occurrence under every capitalisation, for any header list). Malformed Cache-Control texts, Date, Content-Type and the string-valued headers are decided by API-level and text-level double round trips compared with the model / checked by the oracle.",
    note="Closed under the global context. Host with port 0 is an excluded corner. Trusted: harness/h_headers.cc, generator.",
    technique="Coq proof (decimal round-trip, enum sweeps, case-insensitive first-wins lookup) + differential correspondence of write/parse/write on the real headers",
    design="§2 C16"),
 "C17": dict(
    text="Partial. Theorems C17_attributes_roundtrip (any name without '=', value without ';' and ANY list of Path/Domain/Max-Age/Expires/Secure/HttpOnly attributes in any order parses to exactly those settings), C17_roundtrip (write then parse gives an equal cookie for every subset of the six attributes, Max-Age 0..INT_MAX, Expires under the date round-trip hypothesis), C17_iter_once, C17_jar_exact. Extension attributes, letter case, malformed text and both iterator increments are decided by the correspondence check (ASan+UBSan, non-terminated views).",
    note="Closed under the global context. Section parameters: date_write/date_parse (Howard Hinnant's date.h) with parse(write d) = d as hypothesis; Expires cases are impl-only in the correspondence. Trusted: harness/h_cookie.cc.",
    technique="Coq proof (induction over attribute lists of the real parse loop) + differential correspondence incl. sanitizers",
    design="§2 C17"),
 "C18": dict(
    text="Partial. Theorems C18_roundtrip_type_subtype_suffix and C18_roundtrip_quality (exhaustive in-kernel sweeps over every (type, subtype, suffix) of the tables regenerated from mime.h and over the 101 quality values, lifted to the quantified statements), C18_text_preserved (toString of a parsed media type is the text it was parsed from, for every text). Parameters, letter case, vendor/extension subtypes and rejection of malformed text (415, no read past the length) are decided by the correspondence check on non-terminated exact-size views under ASan+UBSan.",
    note="Closed under the global context; vm_compute sweeps are part of the proof. Quality texts are modelled as exact decimals (exponent/hex/inf/nan forms and third-decimal ties are outside the model and skipped in the comparison). Trusted: harness/h_mime.cc (reads the private parameter map), tools/gen_tables.py.",
    technique="Coq proof by exhaustive sweep over regenerated tables + differential correspondence incl. sanitizers",
    design="§2 C18"),
 "C19": dict(
    text="Full under stated libc hypotheses. Theorems C19_port_roundtrip, C19_port_never_out_of_range (whatever the text), C19_v4_with_port / default_port, C19_v6_with_port, C19_alias_star / localhost, C19_empty_port_rejected, C19_print_parse_v4 / v6 (printing gives a text that parses back to the same address), C19_nul_rejected (a NUL anywhere in the text: refused, whatever the resolver), C19_port_only_digits, C19_bad_port_rejected, C19_text_before/after_bracket_rejected, C19_empty_brackets_rejected, all parametric in getaddrinfo/inet_pton/inet_ntop with the hypothesis each uses; the harness validates those hypotheses against the real libc on every run and compares Address/Port on valid, aliased and garbled texts.",
    note="Closed under the global context. Libc conversions are section parameters, not axioms. strtol extras (' 80', '+80', '-0', '080') are modelled and compared, asserted neither way. Trusted: harness/h_net.cc, Python socket module as the oracle for canonical IPv6 text.",
    technique="Coq proof (string splitting lemmas + decimal round-trip) parametric in libc + differential correspondence against the real libc",
    design="§2 C19"),
 "C11": dict(
    text="Partial. Theorems C11_at_most_once (in the run of ANY program over the modelled API - then with value/void callbacks, rethrowing/swallowing handlers, whenAll, whenAny, settling in any order incl. twice - each continuation's fulfilment callback and rejection callback run at most once) and C11_later_outcomes_raise_nothing (a settling party gets an error only when the very promise it settles is not pending: outcomes reaching a decided whenAll/whenAny are ignored). That the fulfilment continuation runs exactly when fulfilled with the produced value, rejections propagate through rethrow, whenAll delivers values in argument order is decided by comparing the real callback log with the model's on generated programs.",
    note="Closed under the global context. Model: depth-first continuation runs as an explicit task stack; promise-returning continuations are outside the model. Trusted: harness/h_promise.cc script interpreter (ASan build), generator.",
    technique="Coq proof (invariant over a task-stack semantics of the promise core, all programs) + callback-log differential correspondence",
    design="§2 C11"),
 "C12": dict(
    text="Full for the configurations the property names. Theorems C12_base, C12_derived, C12_base_and_derived, C12_two_on_derived: for EVERY schedule (any length, including grants to blocked/finished threads) of one settling thread with one or two attaching threads on the promise and on the promise derived from it: no access to a core's state or continuation list without its mutex, no deadlock, no spurious error, and at the end every continuation has run exactly once. Proof: the finite reachable set at lock/state/list granularity is computed and checked inside Coq (vm_compute) and lifted to all schedules by the closure lemma reach_closed; C12_snapshot_refuted shows the pinned snapshot's order fails. Tied to /repo by replaying all 2^14 / 3^9 schedule prefixes on the real async.h through the PISTACHE_VERIF yield points.",
    note="Closed under the global context; vm_compute over a finite state space (a few hundred states) is part of the proof. Sequentially consistent memory; callbacks do not re-enter their promise. Trusted: harness/h_promise_conc.cc, pv_sched.h, hook placement in async.h.",
    technique="Coq proof by in-kernel exhaustive reachability (finite interleaving semantics + closure lemma) + schedule replay on the hooked implementation",
    design="§2 C12"),
 "C13": dict(
    text="Full. Theorems C13_fifo (the consumer's output is always the prefix, in atomic-exchange order, of what was pushed), C13_no_missed_wakeup (consumer parked with an entry queued implies notification pending or the oldest entry's producer has still to write it), C13_all_delivered (at quiescence everything pushed has been popped exactly once, in order) for ANY number of producers, pushes and EVERY interleaving - of a consumer that, with an entry in hand, pops again or stops and goes back to its event loop as it pleases - by invariant induction; C13_old_order_refuted for the snapshot's look-then-drain order, C13_drain_on_every_pop_refuted for the code in between (a consumer that stops early is never woken). Tied to /repo by replaying all interleavings of 2x1 and 1x2 pushes with the consumer (and seeded larger ones) on the real PollableQueue through yield points.",
    note="Closed under the global context. Entries are indexed in exchange order (the next pointer of entry k-1 is the linked flag of entry k); sequentially consistent memory; consumer woken only when the eventfd is readable. Trusted: harness/h_queue.cc, pv_sched.h, hook placement in mailbox.h.",
    technique="Coq proof (invariant over a small-step interleaving semantics, unbounded producers/pushes/schedules) + exhaustive small-configuration schedule replay on the hooked implementation",
    design="§2 C13"),
 "C10": dict(
    text="Partial. Theorems C10_find_sound (whatever the backtracking search returns is a registered route whose pattern matches the path, parameters/wildcards bound to the prescribed segments in path order), C10_find_complete (if any registered route matches, a route is found: 404/405 only when none matches), C10_status (exactly one of handler / 405 with other matching methods / not found), for every table and path; C10_best_route and C10_best_route_is_unique (precedence: in a tree without optional parameters whose nodes each have at most one parameter name, the route found is the matching route whose sequence of segment kinds - fixed, parameter, wildcard - is lexicographically least among all matching routes, and it is the only one with that sequence). With optional parameters the precedence the property states is NOT what the search does (open finding C10-present-first). The choice among several matching routes in the remaining cases (optional parameters, several parameter names in one node) is decided by an independent Python oracle on the implementation's answers and by the model/implementation correspondence through a live Rest::Router endpoint, not yet by a theorem.",
    note="Closed under the global context. The trie is modelled as the set of (remaining pattern, handler) entries with child maps as derivatives; tables in the correspondence keep one parameter/optional name per tree position (the C++ iterates same-kind children in hash order; see DESIGN.md F2). Trusted: harness/h_router.cc (live endpoint + raw socket), Python spec oracle.",
    technique="Coq proof (soundness + completeness of backtracking search w.r.t. a pattern-matching spec) + live-endpoint differential correspondence + independent precedence oracle",
    design="§2 C10"),
 "C01": dict(
    text="Full (parser level). Theorems C01_segmentation_independent (for every typed-header parser, both parser kinds, all byte strings and all segmentations: need-more-data for the first j reads, then exactly the outcome, message and framing state of the one-shot parse), C01_incremental_state_is_oneshot_state, C01_settled_is_stable, C01_effects_replay_idempotent, proved about a model that keeps the code's structure (restartable steps whose mutations are not rolled back; a body state machine with partial consumption). Tied to /repo by running extracted model and real RequestParser/ResponseParser (ASan+UBSan) on the same segmentations - every single cut and byte-by-byte for each generated message - and by a direct oracle (segmented == whole, Done exactly at the last byte) on the implementation.",
    note="Closed under the global context. Section parameters (arbitrary deterministic functions, not axioms): typed_other (registry parsers other than Content-Length), set_cookie (Cookie::fromRaw). Completion-exactly-at-last-byte for well-formed messages is checked by the oracle on generated messages, not proved (no rendering spec yet). Trusted: extraction, driver, harness/h_parser.cc, generators.",
    technique="Coq proof (generic restartable-step theorem + idempotent effect algebra + body state-machine merge lemmas) + extracted-model/implementation differential correspondence over exhaustive single cuts",
    design="§2 C01"),
 "C03": dict(
    text="Partial. Theorems C03_parser_safe / C03_parse_step_safe (every reachable parser state keeps the cursor inside the buffer, chunk progress within the chunk - no negative advance -, body made of consumed bytes), C03_chunk_loop_terminates, C03_reservations_bounded, C03_buffer_bounded, C03_handler_total, for all inputs and segmentations. Residue: undefined behaviour inside libc/libstdc++ and the value parsers not yet modelled is only observed by the ASan+UBSan+vector-annotation harness on a malformed stream (supporting validation).",
    note="Closed under the global context. Trusted as C01, plus the sanitizers as oracle for memory errors on sampled inputs; server-level liveness not exercised in the quick tier.",
    technique="Coq proof of safety invariants over the parser model + sanitizer-instrumented differential correspondence on malformed inputs",
    design="§2 C03"),
 "C04": dict(
    text="Full (request side; response side by correspondence). Theorems C04_reset_is_init, C04_completed_message_leaves_fresh_parser, C04_independent (any sequence of completed messages on one connection is handled exactly as on fresh parsers), C04_requests_sharing_a_read_served_as_fresh, C04_one_request_alone and C04_train_of_requests_cut_anywhere (requests, each exactly one message and within the size limit, delivered on a fresh connection in reads cut ANYWHERE - inside requests, at their boundaries, several requests and the beginning of the next in one read: Handler::onInput calls the handler exactly once per request, in order, with the message each gives alone, and refuses nothing). Tied to /repo by trains of 2-40 requests cut anywhere on a live endpoint (h_timeout Z cases, compared with the model AND with the generator's own expectation), by sequence-mode runs on ONE parser object against fresh parsers, all predecessor x successor kinds incl. messages abandoned in mid-body.",
    note="Closed under the global context. reset is modelled field by field from ParserBase::reset/Step::reset/ParserImpl<Request>::reset; the response parser's move-out + reset is checked by correspondence only. Read-aligned messages (no pipelining), as scoped in DESIGN.md.",
    technique="Coq proof (reset refines to the initial state; induction over message sequences) + sequence-mode differential correspondence",
    design="§2 C04"),
 "C14": dict(
    text="Partial. Theorems C14_size_exact (a request within the limit - not longer than it, or complete within its first maxsz bytes, what follows it in the last read not counting - is never refused and is delivered at its last read; over the limit the first read crossing it is answered 413 and the handler is never reached - for every segmentation), C14_within_limit_served_whatever_follows (requests sharing a read), C14_nothing_after_refusal (after the first refusal nothing is delivered or answered any more), C14_serving_a_read_ends (the loop of Handler::onInput over the requests of one read ends, from every parser state a connection can be in), C14_timeout_rule and corollaries (decision rule of the idle scan). Tied to /repo at parser level with limits len-2..len+1 at every cut, and for the time-outs by a live endpoint (header/body time-outs 600-2300 ms) with one raw client pacing a request: stalls after connect, inside the request line, the headers and the body, on either side of the applicable time-out, also after a completed request; status codes, connection close and handler runs are compared with the model's rule evaluated at every phase of the 500 ms scan (scripts the rule does not decide for every phase are skipped). Residue: the scan period itself and option propagation to several workers.",
    note="Closed under the global context. The hypothesis 'every proper prefix at a read boundary is incomplete' is discharged by the oracle on generated well-formed requests (Done exactly at the last byte).",
    technique="Coq proof over the onInput/feed model + differential correspondence at limit-1/limit/limit+1 for every cut",
    design="§2 C14"),
 "C20": dict(
    text="Full. Theorems C20_roundtrip (decode (encode bs) = bs for every byte string), C20_canonical (encode = independent RFC 4648 bit-regrouping spec), C20_encoded_size, C20_basic / C20_basic_colon_rejected (Authorization Basic accessors), C20_decode_safe (any text: error or bounded output, the size walk never passes the terminator) proved in Coq about an executable model of base64.cc and the Authorization accessors; the model is tied to /repo by running the extracted model and the real classes (ASan+UBSan build of the working tree) on the same inputs and diffing.",
    note="Closed under the global context (no axioms). Trusted: Coq kernel + vm_compute (finite sweeps over 64/256/65536 values lifted by lemmas), ExtrOcamlBasic extraction, OCaml driver, harness/h_base64.cc, generator; std::string NUL terminator at index size().",
    technique="Coq proof (round-trip by induction on triplets + finite sweeps) + extracted-model/implementation differential correspondence",
    design="§2 C20"),
}

ALL = ["C%02d" % i for i in range(1, 21)]
NOT_YET = "check not built yet in this revision (design in DESIGN.md §2); will be claimed when its model, theorems and correspondence are committed"

def main():
    checks = []
    for pid in ALL:
        if pid not in CHECKS:
            continue
        c = CHECKS[pid]
        checks.append({
            "property_id": pid,
            "quick_cmd": "python3 tools/check.py --property %s --tier quick" % pid,
            "thorough_cmd": "python3 tools/check.py --property %s --tier thorough" % pid,
            "evidence_file": "/verif/evidence/%s.json" % pid,
            "replay_cmd_template": "python3 tools/check.py --property %s --replay {path}" % pid,
            "engine": "check",
            "level_claimed": {"category": "proof", "text": c["text"], "design_ref": c["design"]},
            "level_note": c["note"],
            "technique": c["technique"],
        })
    m = {
        "version": 1,
        "setup_cmd": "python3 tools/setup.py",
        "hooks": {
            "guard": "PISTACHE_VERIF",
            "enable": "checks compile /repo/src/**/*.cc themselves with -DPISTACHE_VERIF (tools/pv.py build_repo_lib); the guard only adds yield points / socket-call indirections",
            "baseline_off_cmd": "cmake --build /repo/_build && ctest --test-dir /repo/_build -j8 --timeout 900",
            "source_commits": HOOK_COMMITS,
            "add_only": True,
        },
        "engines": [
            {"name": "coq", "path": "coq/", "serves_properties": sorted(CHECKS), "kind_free_text": "Coq 8.16.1 development: executable Gallina models, lemmas, Properties_Cnn.v theorem files"},
            {"name": "modelrun", "path": "ocaml/", "serves_properties": sorted(CHECKS), "kind_free_text": "models extracted to OCaml (ExtrOcamlBasic only) + driver reading case lines"},
            {"name": "harness", "path": "harness/", "serves_properties": sorted(CHECKS), "kind_free_text": "C++ drivers compiled against /repo's current working tree (hooks on, sanitizers where relevant)"},
            {"name": "check", "path": "tools/check.py", "serves_properties": sorted(CHECKS), "kind_free_text": "orchestrator: re-checks proofs, builds, generates cases, diffs model vs implementation, evaluates the property oracle, matches known findings, writes evidence"},
        ],
        "checks": checks,
        "notes": "See DESIGN.md. Known findings: known_findings.json. Seeded breaking changes: seeded/.",
        "not_applicable": [{"property_id": p, "reason": NOT_YET} for p in ALL if p not in CHECKS],
    }
    json.dump(m, open(os.path.join(ROOT, "MANIFEST.json"), "w"), indent=1)

HOOK_COMMITS = ["1494318", "2d5a8aa", "19ff1fe", "89b7d2b", "195b251"]

if __name__ == "__main__":
    main()
