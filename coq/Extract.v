(* Extraction of the executable models to OCaml.  ExtrOcamlBasic only; no Extract Constant /
   Extract Inductive of our own: nat, N, Z, positive, ascii stay the extracted inductives. *)
Require Import ExtrOcamlBasic.
Require Import Bytes Base64Model Rfc4648.
Extraction "model.ml"
  Bytes.n2b Bytes.b2n
  Base64Model.encode Base64Model.decode Base64Model.set_basic Base64Model.get_basic
  Rfc4648.rfc4648.
