(* Shutdown protocol of one event loop (C09): SyncImpl::run/runOnce + shutdown(), and the acceptor
   loop of Listener::run + Listener::shutdown.  shutdown() stores the flag, THEN makes the wake-up
   descriptor readable; the loop checks the flag whenever its poll returns with something ready. *)
From Coq Require Import List Arith Bool.
Import ListNotations.

Inductive phase := Waiting | Exited.
Record loop := mkLoop { flag : bool; wake : bool; other : nat; handled : nat; ph : phase }.
Definition loop_init : loop := mkLoop false false 0 0 Waiting.

Inductive sev :=
| SStore        (* shutdown(): shutdown_.store(true) *)
| SNotify       (* shutdown(): shutdownFd.notify() - the eventfd stays readable (level-triggered, never read) *)
| SOther        (* some other descriptor of the loop becomes ready *)
| SPollReturn.  (* the loop's poll returns if anything is ready *)

Definition sstep (l : loop) (e : sev) : loop :=
  match e with
  | SStore => mkLoop true (wake l) (other l) (handled l) (ph l)
  | SNotify => mkLoop (flag l) true (other l) (handled l) (ph l)
  | SOther => mkLoop (flag l) (wake l) (S (other l)) (handled l) (ph l)
  | SPollReturn =>
      match ph l with
      | Exited => l
      | Waiting =>
          if wake l || negb (Nat.eqb (other l) 0) then
            if flag l then mkLoop (flag l) (wake l) (other l) (handled l) Exited
            else mkLoop (flag l) (wake l) 0 (handled l + other l) Waiting      (* handleFds *)
          else l                                                                   (* nothing ready: poll does not return *)
      end
  end.

Definition srun (h : list sev) : loop := fold_left sstep h loop_init.

(* histories in which every notify is preceded by a store: what shutdown() produces, at any moment *)
Fixpoint ordered (stored : bool) (h : list sev) : bool :=
  match h with
  | [] => true
  | SStore :: r => ordered true r
  | SNotify :: r => stored && ordered stored r
  | _ :: r => ordered stored r
  end.

(* ---- shutdown() before the loop has been entered ----
   serveThreaded() returns before the worker threads run their loops (they are started by the acceptor thread); a
   shutdown() issued in that window stores the flag and notifies while no loop is polling yet.  SyncImpl::run enters
   with "while (!shutdown_) runOnce()": the flag is looked at before the first poll.  [before] holds what happened
   before the thread entered the loop (no poll returns there), [after] what happens from then on.
   [clear = true] is the variant that resets the flag on entry ("a reactor that has been shut down can be run again"). *)
Definition start (clear : bool) (l : loop) : loop :=
  if clear then mkLoop false (wake l) (other l) (handled l) Waiting
  else if flag l then mkLoop (flag l) (wake l) (other l) (handled l) Exited
  else l.
Definition srun_from (clear : bool) (before after : list sev) : loop :=
  fold_left sstep after (start clear (fold_left sstep before loop_init)).
