(* C20 — Base64 and Basic credentials round-trip for every byte string.
   Only statements, each closed by [exact] of a lemma proved elsewhere. *)
From Coq Require Import Ascii String List Arith NArith.
Require Import Bytes Base64Model Rfc4648 Base64Lemmas.
Import ListNotations.

(* decoding the encoding of any byte string gives back the same bytes *)
Theorem C20_roundtrip : forall bs : list ascii, decode (encode bs) = inr bs.
Proof. exact decode_encode. Qed.
Print Assumptions C20_roundtrip.

(* the encoding is the canonical padded RFC 4648 text (independent bit-regrouping spec) *)
Theorem C20_canonical : forall bs : list ascii, encode bs = rfc4648 bs.
Proof. exact encode_is_rfc4648. Qed.
Print Assumptions C20_canonical.

(* the output buffer size computed by CalculateEncodedSize is exactly what Encode fills *)
Theorem C20_encoded_size : forall bs : list ascii, length (encode bs) = calc_encoded_size (length bs).
Proof. exact length_encode. Qed.
Print Assumptions C20_encoded_size.

(* a user without ':' and any password come back from the Authorization header *)
Theorem C20_basic : forall user pw v,
  set_basic user pw = Some v ->
  get_basic false v = CredOk user /\ get_basic true v = CredOk pw.
Proof. exact basic_roundtrip. Qed.
Print Assumptions C20_basic.

Theorem C20_basic_colon_rejected : forall user pw,
  has_colon user = true -> set_basic user pw = None.
Proof. exact basic_colon_rejected. Qed.
Print Assumptions C20_basic_colon_rejected.

(* arbitrary text: an error, or an output no longer than 3/4 of the input, and the only
   unchecked read (the size walk) never passes index = length (the terminator) *)
Theorem C20_decode_safe : forall s out,
  decode s = inr out -> 4 * length out <= 3 * length s /\ walk_reads s <= length s.
Proof. exact decode_bounded. Qed.
Print Assumptions C20_decode_safe.

(* non-vacuity: concrete values on both sides of each hypothesis *)
Example C20_ex_basic :
  exists v, set_basic (list_of_string "Aladdin") (list_of_string "open:sesame") = Some v
            /\ v = list_of_string "Basic QWxhZGRpbjpvcGVuOnNlc2FtZQ==".
Proof. eexists. split; vm_compute; reflexivity. Qed.
Example C20_ex_decode_err : decode (list_of_string "abc") = inl ErrShort
                         /\ decode (list_of_string "ab=c") = inr [n2b 105%N].
Proof. split; vm_compute; reflexivity. Qed.
