(* C07 — a peer that cannot be written to does not stall other connections (partial: the
   loop-control logic of the write path; "bounded time" on real sockets is measured by the live
   check). *)
From Coq Require Import List NArith Arith.
Require Import Bytes TransportModel TransportLemmas.
Import ListNotations.

(* the first would-block ends the drain attempt: no further send call is made on that descriptor
   during this event, the unwritten tail stays at the front of the queue with its progress, and
   write interest is armed so that the writable event resumes it *)
Theorem C07_returns_to_loop_on_would_block : forall fuel s orc e q,
  queue s = e :: q ->
  drain (S fuel) s (WouldBlock :: orc) = (mkTS (e :: q) (wire s) (settled s) true (S (sends s)), orc).
Proof. exact drain_stops_on_wouldblock. Qed.
Print Assumptions C07_returns_to_loop_on_would_block.

(* a drain attempt makes at most one send call per socket outcome it consumes: it always returns *)
Theorem C07_bounded_calls : forall fuel s orc,
  sends (fst (drain fuel s orc)) + length (snd (drain fuel s orc)) <= sends s + length orc.
Proof. intros. destruct (drain_sends fuel s orc) as [H|H]; [rewrite H; apply le_n|exact H]. Qed.
Print Assumptions C07_bounded_calls.

(* resuming: when the socket accepts again everything pending is delivered (stream invariant of C06) *)
Theorem C07_resume_delivers : forall total fuel s orc, Inv total s -> Inv total (fst (drain fuel s orc)).
Proof. exact drain_inv. Qed.
Print Assumptions C07_resume_delivers.
