"""C08 — connection lifecycle is balanced: nothing leaks, nothing is released twice."""
import itertools
import re
import pv
from diffcheck import Spec, run_spec

HARNESSES = [("h_lifecycle", "plain", ())]

T_BEH = "cdfhrRpK"
H_FAST = "cfkdbhrzsStALMOYP"
H_SLOW = "ijmw"


class C08(Spec):
    pid = "C08"
    area = "lifecycle"
    harness = "h_lifecycle"
    variant = "plain"
    shard = 4
    timeout = 900
    env = {"PV_CASE_TIMEOUT": "150"}
    rule = ("live listeners with 1-3 workers; every round runs 1-12 client behaviours concurrently, for 1-30 rounds. "
            "Raw Tcp::Handler (T): connect+close, data+close, data/echo/close, data+shutdown(WR), data+RST, immediate RST, "
            "4 MB write requested then closed unread (pending writes at abort), the handler keeps the peer and sends to it (Peer::send) 150 ms after the connection has ended - when a fresh connection holds its "
            "descriptor number (K), one connection keeps the worker busy while two others send data and close / half-close so that data and end of stream reach the worker in ONE readiness event, nothing being written back (n,u,v). Http::Endpoint with 600 ms time-outs (H): "
            "connect+close, request/response, keep-alive x2, partial head, partial body, request+shutdown(WR), request+RST, request for a slow 24 MB answer and close at once (the answer is written to a peer that has gone), "
            "a 16 MB file served with Http::serveFile and abandoned after 17 bytes, the same file downloaded completely, an answer sent after ResponseWriter::timeoutAfter(300 ms) was armed, an answer sent by a thread of the handler's own 150 ms after the client has closed (L), the response time-out armed and the writer then moved before it answers (M) / moved to a thread that never answers so that the time-out fires (O) / answering at once and kept alive beyond the timer's expiry (Y), "
            "silence until the idle scan closes, partial head then silence, answered request then silence, a 24 MB answer never read (write blocked over several idle scans, 408 queued behind it) then RST. Per peer id the "
            "callback log (C connection, I input/request, D disconnection), callbacks after D, /proc/self/fd against the "
            "idle baseline, the number of entries in the workers' tables (Transport::peers, toWrite, timers - read through '#define private public' after every round, when all its clients are gone), and - after every round - as many fresh connections as the round had, which must each receive exactly "
            "the answer to their own request (nothing an earlier connection on the same descriptor number left unsent), are compared with the model's log for the same event history. non-trivial = a case with an "
            "abortive or time-out ending; distinct by case line")
    assumptions = ["the number of onInput calls per connection depends on TCP segmentation and is collapsed to 'some'/'none'",
                   "an RST that arrives before accept() is still delivered as a connection by the kernel (Linux behaviour)",
                   "double release is observed through descriptor balance and the callback count, not by instrumenting close()"]

    def gen(self, rng, tier):
        cases = []
        for b in T_BEH:
            cases.append("T 1 3 %s" % b)
        for b in H_FAST + H_SLOW:
            cases.append("H 1 2 %s" % b)
        cases.append("T 2 4 " + ",".join(T_BEH))
        cases.append("H 2 2 " + ",".join(H_FAST + H_SLOW))
        cases.append("H 1 1 i,i,i,j,m,m,f")
        cases.append("H 2 1 w,f,w,i")
        cases.append("H 1 3 w")
        cases.append("H 1 3 s")
        # a download reset while it is in full swing: before fix of 2026-09-26 night the next sendfile raised SIGPIPE (about every
        # second run of each of these cases)
        cases += ["H 1 6 A,A,A", "H 2 4 A,f,A,S", "H 3 5 A,A,S,A,f,A"]
        cases.append("H 2 3 s,z,s,f")
        cases.append("H 1 4 t,t,f")
        # the response time-out and a writer that is moved / kept (process abort before the fix)
        cases += ["H 1 2 M", "H 1 2 O", "H 1 2 Y", "H 2 2 M,O,Y,t,f", "H 1 2 P", "H 1 2 G,E", "H 1 2 G,E,f"]
        # data and end of stream in one readiness event (the worker is busy meanwhile), nothing written back
        cases += ["T 1 2 n,u,v", "T 1 3 n,u,v,u,v", "T 2 2 n,u,v,f"]
        # writes for a connection that has ended: Peer::send on a kept peer (T), an answer from a thread of the handler's (H)
        cases += ["T 1 2 K", "T 2 3 K,f,K", "T 1 2 K,K,K", "H 1 2 L,f,k", "H 2 3 L,L,f,L"]
        # a connection that is gone before the acceptor thread has finished handing it over (write-queue entry set up too late: fixed)
        cases += ["T 1 30 h,c,h,c,h,c,h,c", "T 2 30 h,c,h,c,h,c,h,c,R,R"]
        cases.append("T 1 4 p")
        cases.append("T 2 3 p,p,f,p")
        nT, nH, nS = (25, 12, 6) if tier == "quick" else (400, 150, 60)
        maxr = 5 if tier == "quick" else 30
        for _ in range(nT):
            bs = [rng.choice(T_BEH) for _ in range(rng.randint(1, 12))]
            cases.append("T %d %d %s" % (rng.randint(1, 3), rng.randint(1, maxr), ",".join(bs)))
        for _ in range(nH):
            bs = [rng.choice(H_FAST) for _ in range(rng.randint(1, 12))]
            cases.append("H %d %d %s" % (rng.randint(1, 3), rng.randint(1, maxr), ",".join(bs)))
        for _ in range(nS):
            bs = [rng.choice(H_FAST + H_SLOW * 3) for _ in range(rng.randint(1, 10))]
            cases.append("H %d %d %s" % (rng.randint(1, 3), rng.randint(1, 2), ",".join(bs)))
        return cases

    def oracle(self, case, impl):
        if impl.startswith(("CRASH", "HANG")):
            return "lifecycle harness %s on %s" % (impl, case)
        t = case.split()
        f = dict(x.split("=") for x in impl.split()[1:])
        logs = [] if f["logs"] == "-" else f["logs"].split(",")
        pat = re.compile(r"^CI?D$") if t[0] == "T" else re.compile(r"^I?D$")
        bad = [l for l in logs if not pat.match(l)]
        if bad:
            return "a peer's callbacks were %s (expected connection, input*, one disconnection) in %s" % (bad[0], case)
        if len(logs) != int(f["conns"]):
            return "%s connections were made but the handler saw %d peers end (%s)" % (f["conns"], len(logs), case)
        if f["after_disc"] != "0":
            return "a callback was delivered for a peer after its disconnection (%s)" % case
        if f.get("stale", "0") != "0":
            return ("%s fresh connection(s) received something else than exactly the answer to their own request: what an earlier "
                    "connection on the same descriptor number left unsent was not released with it (%s)" % (f["stale"], case))
        if f.get("tables", "0") != "0":
            return ("after all clients of a round were gone the workers' tables (Transport::peers, toWrite, timers) still held %s entr%s (%s)"
                    % (f["tables"], "y" if f["tables"] == "1" else "ies", case))
        if f["fd_delta"] != "0":
            return "after all clients were gone the process held %s descriptors more than its idle baseline (%s)" % (f["fd_delta"], case)
        return None

    # the same harness built with AddressSanitizer, for the cases in which a peer is removed while the worker is still working on it
    ASAN_CASES = ["H 1 2 G,E", "H 1 2 G,E,f", "H 1 2 P", "H 1 6 P,P,P", "H 1 2 M,O,Y"]

    @staticmethod
    def loose(line):
        # G's request reaches the worker around the moment the idle scan closes the connection: whether the handler still sees it
        # ("ID") or not ("D") is a matter of milliseconds; the lifecycle (one disconnection, nothing after it, nothing left) is not
        return line.replace("ID", "D")

    def same(self, case, impl, model):
        if "G" in case.split()[3]:
            return self.loose(impl) == self.loose(model)
        return impl == model

    def extra(self, rep, tier, seed):
        exe = pv.build_harness("h_lifecycle", "asan")
        drv = pv.build_model_driver()
        cases = list(self.ASAN_CASES)
        impl, _ = pv.run_parallel([exe], cases, shard=1, env={"PV_CASE_TIMEOUT": "150"})
        model, _ = pv.run_parallel([drv, "lifecycle"], cases)
        for c, i, m in zip(cases, impl, model):
            what = self.oracle(c, i)
            if not what and not self.same(c, i, m):
                what = "lifecycle (asan build) %s: implementation '%s', model '%s'" % (c, i[-120:], m[-120:])
            if what:
                rep.violation(what, {"kind": "input", "case": c, "impl_output": i, "model_output": m,
                                     "how_to_run": "tools/check.py --property C08 --replay <this file> (the crash needs the asan build: PV variant asan)"})
        return {"harness": "h_lifecycle (asan)", "model_area": "lifecycle", "cases": len(cases), "compared": len(cases),
                "rule": "the idle scan's 408 for a peer completing inside that peer's own handler (a flushed stream: G with E keeping the worker busy), "
                        "the response time-out armed and disarmed on another thread (P), moved / kept writers (M O Y): under AddressSanitizer"}

    def nontrivial(self, case, impl):
        return any(b in case.split()[3] for b in "rRpijmwdbhzstA")

    def kind(self, case, impl):
        t = case.split()
        bs = set(t[3].split(","))
        return "%s-%sw-%s" % (t[0], t[1], "timeout" if bs & set("ijmw") else ("abort" if bs & set("rRpdbszA") else "orderly"))


def run(rep, tier, seed):
    return run_spec(C08(), rep, tier, seed)


def replay(obj):
    s = C08()
    case = obj["case"]
    exe = pv.build_harness(s.harness, s.variant)
    drv = pv.build_model_driver()
    i, _ = pv.run_parallel([exe], [case], env=s.env)
    m, _ = pv.run_parallel([drv, s.area], [case])
    print("case :", case); print("impl :", i[0]); print("model:", m[0])
    w = s.oracle(case, i[0])
    print("oracle:", w or "every peer: connection, input*, exactly one disconnection; descriptors back at the baseline")
    return 1 if w else 0
