"""C15 — every client request is answered by exactly its own response."""
import pv
from diffcheck import Spec, run_spec

HARNESSES = [("h_client", "plain", ())]


def strip_conn(line):
    """The model does not count TCP connections: the total accepted by the server is checked by the oracle."""
    return " ".join(x for x in line.split() if not x.startswith(("maxconn=", "accepted=")))


class C15(Spec):
    pid = "C15"
    area = "client"
    harness = "h_client"
    variant = "plain"
    shard = 2
    timeout = 900
    env = {"PV_CASE_TIMEOUT": "60"}
    rule = ("Http::Client (1-3 threads, 1-4 connections per host, request time-out 600 ms) against a scripted raw loopback "
            "server; 1-14 requests issued at once (well above the connection limit) and a second wave 100 ms after the "
            "time-out; every request asks for its own number and the server answers 'resp-<number>': at once, delayed, "
            "byte-dribbled, chunked, with Connection: close, never, half an answer and then nothing, the whole head and most of the body and then nothing, or late (300 ms after the time-out, so the late answer "
            "arrives while a second-wave request is in flight on the same pool slot). Per request: fulfilled with which "
            "number / rejected / never settled, promises settled twice, and the most simultaneous established client "
            "connections (sampled from /proc/net/tcp) against the limit; compared with the model run on the same timed "
            "event history. non-trivial = a case with a time-out or more requests than connections; distinct by case line")
    assumptions = ["wall-clock margins: server delays (<= 250 ms) stay well below the 600 ms time-out",
                   "'Connection: close' answers are only generated where no request is queued behind them (the hand-over race to a closing connection is the HTTP keep-alive race, not decided here)",
                   "simultaneous connections are bounded through the total accepted (a slot reconnects only after a close), not sampled",
                   "timer-pool reuse across connections with mixed time-out/no-time-out requests is not exercised"]

    def same(self, case, impl, model):
        return strip_conn(impl) == strip_conn(model)


    def corpus(self):
        return ["K 1 1 600 l e", "K 1 1 600 l,a a", "K 1 2 600 n,a a,a", "K 1 1 600 l,l,a,l,a a,e",
                "K 2 2 600 n,l,a,b,c,n,a,a e,e,a", "K 1 2 600 x,a a,x", "K 1 8 0 a,b,c,d -",
                "K 1 1 600 h a", "K 1 2 600 h,h,a,a a,e,a", "K 1 1 600 H a", "K 1 2 600 H,H,a,a a,e,a",
                "K 1 2 1900 g,g,a -", "K 1 1 2500 g a"]

    def gen(self, rng, tier):
        cases = list(self.corpus())
        n = 30 if tier == "quick" else 400
        for _ in range(n):
            m = rng.randint(1, 4)
            k = rng.randint(1, 14)
            w1 = []
            slow = 0
            for _i in range(k):
                r = rng.random()
                if r < 0.25 and slow < 3 * m:
                    w1.append(rng.choice("nlhH")); slow += 1
                elif r < 0.3 and k <= m:
                    w1.append("x")
                else:
                    w1.append(rng.choice("adbc"))
            w2 = [rng.choice("adbce") for _ in range(rng.randint(0, 6))]
            cases.append("K %d %d 600 %s %s" % (rng.randint(1, 3), m, ",".join(w1), ",".join(w2) if w2 else "-"))
        return cases

    def oracle(self, case, impl):
        if impl.startswith(("CRASH", "HANG")):
            return "client harness %s on %s (the client stopped making progress)" % (impl, case)
        t = case.split()
        behs = t[4].split(",") + ([] if t[5] == "-" else t[5].split(","))
        f = dict(x.split("=") for x in impl.split()[1:])
        outs = f["r"].split(",")
        for i, (b, o) in enumerate(zip(behs, outs)):
            if o.startswith("F") and o != "F%d" % i:
                return "request %d was fulfilled with the response to request %s (%s)" % (i, o[1:], case)
            if o == "P":
                return "request %d (%s) was never settled (%s)" % (i, b, case)
            if b in "adbcexg" and o != "F%d" % i:
                return "request %d was answered by the server but its promise was %s (%s)" % (i, o, case)
            if b in "nlhH" and int(t[3]) > 0 and o != "R":
                return "request %d was not answered within its time-out but its promise was %s (%s)" % (i, o, case)
        if f["twice"] != "0":
            return "a request's promise was settled more than once (%s)" % case
        # a pool slot opens a new connection only after its previous one was closed (time-out or server close)
        closes = sum(1 for b in behs if b in "nlhHx")
        if int(f["accepted"]) > int(f["limit"]) + closes:
            return "the server accepted %s connections: more than the limit %s plus the %d connections closed by time-out/server (%s)" % (f["accepted"], f["limit"], closes, case)
        return None

    def nontrivial(self, case, impl):
        t = case.split()
        return any(b in t[4] for b in "nlhH") or len(t[4].split(",")) > int(t[2])

    def kind(self, case, impl):
        t = case.split()
        return "m%s-%s%s" % (t[2], "timeout" if any(b in t[4] for b in "nlhH") else "answered", "-overflow" if len(t[4].split(",")) > int(t[2]) else "")


def run(rep, tier, seed):
    return run_spec(C15(), rep, tier, seed)


def replay(obj):
    s = C15()
    case = obj["case"]
    exe = pv.build_harness(s.harness, s.variant)
    drv = pv.build_model_driver()
    i, _ = pv.run_parallel([exe], [case], env=s.env)
    m, _ = pv.run_parallel([drv, s.area], [case])
    print("case :", case); print("impl :", i[0]); print("model:", m[0])
    w = s.oracle(case, i[0])
    print("oracle:", w or "every request settled once: answered ones with their own response, unanswered ones rejected; connection limit respected")
    return 1 if w else 0
