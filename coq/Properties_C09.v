(* C09 — multi-threaded serving: the part that is logic.  For every global history (any interleaving
   the scheduler produces of the connections' events over w workers) every request receives exactly
   one response computed from that request alone.  Data-race freedom of the C++ and termination of
   shutdown() are runtime properties: decided by the ThreadSanitizer harness, not by a theorem. *)
From Coq Require Import List Arith.
Require Import DispatchModel DispatchLemmas.
Import ListNotations.

Theorem C09_one_response_from_own_request_partial : forall (req resp : Type) (handle : req -> resp) (w : nat) h c,
  responses _ w (run _ _ handle w h) c = map handle (requests_of _ c h).
Proof. exact run_responses. Qed.
Print Assumptions C09_one_response_from_own_request_partial.

Theorem C09_interleaving_independent_partial : forall (req resp : Type) (handle : req -> resp) (w : nat) h1 h2,
  (forall c, requests_of _ c h1 = requests_of req c h2) ->
  forall c, responses _ w (run _ _ handle w h1) c = responses _ w (run _ _ handle w h2) c.
Proof. exact interleaving_independent. Qed.
Print Assumptions C09_interleaving_independent_partial.
