// Harness for C14 (time-outs): a live Http::Endpoint with given header/body time-outs and one raw client that
// paces a request according to a script.
//
//   W <header timeout ms> <body timeout ms> <script>
//        script = comma separated steps:  d<ms> wait;  p first half of the request line;  P rest of the request line;
//        q whole request line;  h header lines (Host + Content-Length: 10);  e blank line ending the head;
//        c 2 body bytes;  b 5 body bytes;  B 10 body bytes;  g a whole GET request without body
//        after the script the client reads until it has a complete response or EOF (at most body time-out + 2.5 s)
//     -> W codes=<status codes received, in order, '-' if none> closed=<1 if the server closed the connection>
//            handler=<times the handler ran>
//   Y <header timeout ms> <body timeout ms> <answer delay ms>
//        one complete request whose handler answers from a thread of its own after the delay
//     -> Y codes=<status codes received in order> closed=<1 if the server closed the connection before/without the answer>
//   Z <max request size> <segment hex>,<segment hex>,...
//        a live endpoint with that maximum request size (time-outs 1500 ms); the client sends the segments 120 ms apart (separate
//        reads), then reads for 400 ms
//     -> Z codes=<status codes received in order, '-' if none> handler=<times the handler ran> seen=<resource:body length of each call>
#include <pistache/endpoint.h>
#include <pistache/http.h>

#include <atomic>
#include <mutex>
#include <chrono>
#include <thread>

#include "pv_net.h"
#include "pv_util.h"

using namespace Pistache;

namespace {
std::atomic<int> g_handled { 0 };
std::mutex g_seen_m;
std::string g_seen;

class Echo : public Http::Handler
{
public:
    HTTP_PROTOTYPE(Echo)
    void onRequest(const Http::Request& req, Http::ResponseWriter response) override
    {
        ++g_handled;
        if (req.resource().rfind("/slow/", 0) == 0)
        {
            // the answer comes later, from another thread (ResponseWriter is movable for that purpose)
            int ms  = atoi(req.resource().c_str() + 6);
            auto rw = std::make_shared<Http::ResponseWriter>(std::move(response));
            std::thread([rw, ms] {
                std::this_thread::sleep_for(std::chrono::milliseconds(ms));
                rw->send(Http::Code::Ok, "late");
            }).detach();
            return;
        }
        {
            std::lock_guard<std::mutex> g(g_seen_m);
            g_seen += (g_seen.empty() ? "" : ",") + req.resource() + ":" + std::to_string(req.body().size());
        }
        response.send(Http::Code::Ok, "ok " + req.body());
    }
};

// splits complete responses off the front of buf; returns their status codes
std::vector<int> take_responses(std::string& buf)
{
    std::vector<int> codes;
    for (;;)
    {
        auto he = buf.find("\r\n\r\n");
        if (he == std::string::npos)
            break;
        auto cl  = buf.find("Content-Length: ");
        size_t n = (cl == std::string::npos || cl > he) ? 0 : static_cast<size_t>(atoll(buf.c_str() + cl + 16));
        if (buf.size() < he + 4 + n)
            break;
        codes.push_back(atoi(buf.c_str() + 9));
        buf.erase(0, he + 4 + n);
    }
    return codes;
}
} // namespace

static std::string size_case(const std::vector<std::string>& t)
{
    g_handled = 0;
    {
        std::lock_guard<std::mutex> g(g_seen_m);
        g_seen.clear();
    }
    Http::Endpoint ep(Address("127.0.0.1", Port(0)));
    ep.init(Http::Endpoint::options()
                .threads(1)
                .flags(Flags<Tcp::Options>(Tcp::Options::ReuseAddr))
                .maxRequestSize(static_cast<size_t>(atoll(t[1].c_str())))
                .headerTimeout(std::chrono::milliseconds(1500))
                .bodyTimeout(std::chrono::milliseconds(1500)));
    ep.setHandler(std::make_shared<Echo>());
    ep.serveThreaded();
    int fd = pv::connect_loopback(ep.getPort());
    std::string buf;
    std::vector<int> codes;
    bool closed = false;
    auto drain  = [&](int ms) {
        pollfd p = { fd, POLLIN, 0 };
        auto end = std::chrono::steady_clock::now() + std::chrono::milliseconds(ms);
        while (!closed)
        {
            auto left = std::chrono::duration_cast<std::chrono::milliseconds>(end - std::chrono::steady_clock::now()).count();
            if (left <= 0)
                break;
            if (::poll(&p, 1, static_cast<int>(left)) <= 0)
                break;
            char tmp[4096];
            ssize_t n = ::recv(fd, tmp, sizeof tmp, 0);
            if (n <= 0)
            {
                closed = true;
                break;
            }
            buf.append(tmp, static_cast<size_t>(n));
            for (int c : take_responses(buf))
                codes.push_back(c);
        }
    };
    std::string cur;
    for (char ch : t[2] + ",")
    {
        if (ch != ',')
        {
            cur.push_back(ch);
            continue;
        }
        if (!cur.empty() && !closed)
        {
            pv::send_all(fd, pv::unhex(cur));
            drain(120);
        }
        cur.clear();
    }
    drain(400);
    ::close(fd);
    ep.shutdown();
    std::ostringstream os;
    os << "Z codes=";
    for (size_t i = 0; i < codes.size(); ++i)
        os << (i ? "," : "") << codes[i];
    if (codes.empty())
        os << "-";
    std::lock_guard<std::mutex> g(g_seen_m);
    os << " handler=" << g_handled.load() << " seen=" << (g_seen.empty() ? "-" : g_seen);
    return os.str();
}

static std::string slow_case(const std::vector<std::string>& t)
{
    int hT = atoi(t[1].c_str()), bT = atoi(t[2].c_str()), delay = atoi(t[3].c_str());
    Http::Endpoint ep(Address("127.0.0.1", Port(0)));
    ep.init(Http::Endpoint::options()
                .threads(1)
                .flags(Flags<Tcp::Options>(Tcp::Options::ReuseAddr))
                .headerTimeout(std::chrono::milliseconds(hT))
                .bodyTimeout(std::chrono::milliseconds(bT)));
    ep.setHandler(std::make_shared<Echo>());
    ep.serveThreaded();
    int fd = pv::connect_loopback(ep.getPort());
    pv::send_all(fd, "GET /slow/" + std::to_string(delay) + " HTTP/1.1\r\nHost: a\r\n\r\n");
    std::string buf;
    std::vector<int> codes;
    bool closed = false;
    auto end    = std::chrono::steady_clock::now() + std::chrono::milliseconds(delay + 1200);
    while (!closed && std::chrono::steady_clock::now() < end)
    {
        pollfd p = { fd, POLLIN, 0 };
        if (::poll(&p, 1, 50) <= 0)
            continue;
        char tmp[4096];
        ssize_t n = ::recv(fd, tmp, sizeof tmp, 0);
        if (n <= 0)
        {
            closed = true;
            break;
        }
        buf.append(tmp, static_cast<size_t>(n));
        for (int c : take_responses(buf))
            codes.push_back(c);
        if (!codes.empty() && codes.back() == 200)
            break;
    }
    ::close(fd);
    std::this_thread::sleep_for(std::chrono::milliseconds(100));
    ep.shutdown();
    std::ostringstream os;
    os << "Y codes=";
    for (size_t i = 0; i < codes.size(); ++i)
        os << (i ? "," : "") << codes[i];
    if (codes.empty())
        os << "-";
    os << " closed=" << (closed ? 1 : 0);
    return os.str();
}

static std::string handle(const std::string& line)
{
    auto t = pv::split(line);
    if (t.size() == 4 && t[0] == "Y")
        return slow_case(t);
    if (t.size() == 3 && t[0] == "Z")
        return size_case(t);
    if (t.size() < 4 || t[0] != "W")
        return "BADCASE";
    int hT = atoi(t[1].c_str()), bT = atoi(t[2].c_str());
    g_handled = 0;

    Http::Endpoint ep(Address("127.0.0.1", Port(0)));
    ep.init(Http::Endpoint::options()
                .threads(1)
                .flags(Flags<Tcp::Options>(Tcp::Options::ReuseAddr))
                .headerTimeout(std::chrono::milliseconds(hT))
                .bodyTimeout(std::chrono::milliseconds(bT)));
    ep.setHandler(std::make_shared<Echo>());
    ep.serveThreaded();

    int fd = pv::connect_loopback(ep.getPort());
    std::string buf;
    std::vector<int> codes;
    bool closed = false;
    auto drain  = [&](int ms) {
        // collect whatever arrives within ms without blocking the script longer
        pollfd p = { fd, POLLIN, 0 };
        auto end = std::chrono::steady_clock::now() + std::chrono::milliseconds(ms);
        while (!closed)
        {
            auto left = std::chrono::duration_cast<std::chrono::milliseconds>(end - std::chrono::steady_clock::now()).count();
            if (left < 0)
                left = 0;
            int pr = ::poll(&p, 1, static_cast<int>(left));
            if (pr <= 0)
                break;
            char tmp[4096];
            ssize_t n = ::recv(fd, tmp, sizeof tmp, 0);
            if (n <= 0)
            {
                closed = true;
                break;
            }
            buf.append(tmp, static_cast<size_t>(n));
            for (int c : take_responses(buf))
                codes.push_back(c);
            if (left == 0)
                break;
        }
    };

    std::string cur;
    for (char ch : t[3] + ",")
    {
        if (ch != ',')
        {
            cur.push_back(ch);
            continue;
        }
        if (cur.empty())
            continue;
        std::string data;
        switch (cur[0])
        {
        case 'd': drain(atoi(cur.c_str() + 1)); break;
        case 'p': data = "GET /t H"; break;
        case 'P': data = "TTP/1.1\r\n"; break;
        case 'q': data = "GET /t HTTP/1.1\r\n"; break;
        case 'h': data = "Host: a\r\nContent-Length: 10\r\n"; break;
        case 'e': data = "\r\n"; break;
        case 'c': data = "ab"; break;
        case 'b': data = "01234"; break;
        case 'B': data = "0123456789"; break;
        case 'g': data = "GET /t HTTP/1.1\r\nHost: a\r\n\r\n"; break;
        default: break;
        }
        if (!data.empty() && !closed)
            pv::send_all(fd, data);
        cur.clear();
    }
    // wait for the outcome of the last request in progress
    size_t before = codes.size();
    auto end      = std::chrono::steady_clock::now() + std::chrono::milliseconds(bT + 2500);
    while (!closed && codes.size() == before && std::chrono::steady_clock::now() < end)
        drain(50);
    drain(60);
    ::close(fd);
    ep.shutdown();

    std::ostringstream os;
    os << "W codes=";
    for (size_t i = 0; i < codes.size(); ++i)
        os << (i ? "," : "") << codes[i];
    if (codes.empty())
        os << "-";
    os << " closed=" << (closed ? 1 : 0) << " handler=" << g_handled.load();
    return os.str();
}

int main()
{
    return pv::run_cases(handle);
}
