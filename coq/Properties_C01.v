(* C01 — HTTP message parsing does not depend on how the bytes are segmented.
   Statements only; every theorem holds for every typed-header parser [typed_other], every
   Set-Cookie parser [set_cookie] (arbitrary deterministic functions, section parameters of the
   model), both parser kinds, all byte strings and all segmentations. *)
From Coq Require Import Ascii String List NArith Arith.
Require Import Bytes Restartable ParserModel ParserInst ParserLemmas.
Import ListNotations.

(* Whatever the cuts, the incremental parser reports need-more-data for the first j reads and
   then exactly the outcome (Done, or the same error) of parsing the whole string at once, with
   the same message, step and body-framing state. *)
Theorem C01_segmentation_independent :
  forall typed_other set_cookie kd (segs : list bytes) r st,
    whole typed_other set_cookie kd (concat segs) = (r, st) -> r <> PAgain ->
    exists j st', j < length segs
      /\ run_inc typed_other set_cookie kd pstate_init segs = (repeat PAgain j ++ [r], st')
      /\ p_msg st' = p_msg st /\ p_step st' = p_step st /\ p_bs st' = p_bs st.
Proof. exact segmentation_independent. Qed.
Print Assumptions C01_segmentation_independent.

(* As long as the one-shot parse of every earlier read boundary is need-more-data, so is every
   incremental result, and the parser state after the last read is the one-shot state. *)
Theorem C01_incremental_state_is_oneshot_state :
  forall typed_other set_cookie kd (segs : list bytes) acc stc,
    whole typed_other set_cookie kd acc = (PAgain, stc) -> segs <> [] ->
    (forall k, k < length segs ->
       fst (whole typed_other set_cookie kd (acc ++ concat (firstn k segs))) = PAgain) ->
    run_inc typed_other set_cookie kd stc segs =
      (repeat PAgain (length segs - 1) ++ [fst (whole typed_other set_cookie kd (acc ++ concat segs))],
       snd (whole typed_other set_cookie kd (acc ++ concat segs))).
Proof. exact inc_eq_whole. Qed.
Print Assumptions C01_incremental_state_is_oneshot_state.

(* A settled outcome (complete message or error) is not changed by further bytes. *)
Theorem C01_settled_is_stable :
  forall typed_other set_cookie kd b e r st,
    whole typed_other set_cookie kd b = (r, st) -> r <> PAgain ->
    whole typed_other set_cookie kd (b ++ e) = (r, feed_raw st e).
Proof. exact whole_stable. Qed.
Print Assumptions C01_settled_is_stable.

(* replaying a step's mutations on a message that already absorbed them changes nothing:
   the reason restart-after-revert is sound *)
Theorem C01_effects_replay_idempotent : forall m s, apply (apply m s) s = apply m s.
Proof. exact apply_idem. Qed.
Print Assumptions C01_effects_replay_idempotent.

(* non-vacuity: a chunked request cut between the chunk data and its CRLF, between CR and LF,
   and inside the terminating chunk *)
Definition ex_req : bytes :=
  list_of_string ("POST /a?x=1 HTTP/1.1" ++ String "013" (String "010" "Transfer-Encoding: chunked")
    ++ String "013" (String "010" (String "013" (String "010" "5")))
    ++ String "013" (String "010" "hello") ++ String "013" (String "010" "0")
    ++ String "013" (String "010" (String "013" (String "010" "")))).
Example C01_ex_whole_done :
  fst (whole typed_other_inst set_cookie_inst KRequest ex_req) = PDone.
Proof. vm_compute. reflexivity. Qed.
Example C01_ex_cut_cr_lf :
  fst (run_inc typed_other_inst set_cookie_inst KRequest pstate_init
         [firstn 61 ex_req; skipn 61 ex_req]) = [PAgain; PDone]
  /\ fst (run_inc typed_other_inst set_cookie_inst KRequest pstate_init
         [firstn 60 ex_req; firstn 4 (skipn 60 ex_req); skipn 64 ex_req]) = [PAgain; PAgain; PDone].
Proof. split; vm_compute; reflexivity. Qed.
