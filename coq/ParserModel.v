(* Executable model of the incremental HTTP parser of src/common/http.cc:
   RequestLineStep, ResponseLineStep, HeadersStep (restartable: cursor reverted on Again,
   message mutations kept), BodyStep (a genuine state machine), ParserBase::{feed,parse,reset}.
   No proofs here. *)
From Coq Require Import Ascii String List NArith ZArith Bool Arith.
Require Import Bytes NumParse Restartable TablesGen.
Import ListNotations.

Inductive err := EHttp (code : N) | EExc.   (* HttpError(code) | any other std::exception *)

(* ---------- the message and the mutations the steps perform on it ---------- *)

Record msg := mkMsg {
  m_method : N;                        (* index into HTTP_METHODS *)
  m_resource : bytes;
  m_query : list (bytes * bytes);      (* unordered_map::insert: first key wins *)
  m_version : N;                       (* 0 = Http10, 1 = Http11 *)
  m_code : Z;
  m_cookies : list (bytes * bytes);    (* jar: first (name,value) pair wins *)
  m_typed : list (N * bytes);          (* typed headers by registry index, first wins *)
  m_raw : list (bytes * bytes);        (* raw headers, case-insensitive name, first wins *)
  m_body : bytes }.

(* Request(): method_ Get (index 1), version Http11; code_ is uninitialised in C++ (0 here,
   never observed before it is set) *)
Definition msg_init : msg := mkMsg 1%N [] [] 1%N 0%Z [] [] [] [].

Inductive eff :=
| SetMethod (n : N) | SetResource (b : bytes) | AddQuery (k v : bytes) | SetVersion (n : N)
| SetCode (z : Z) | ClearCookies | AddCookie (k v : bytes) | AddTyped (id : N) (v : bytes)
| AddRaw (k v : bytes).

Definition same_key (a b : bytes * bytes) : bool := bytes_eqb (fst a) (fst b).
Definition same_pair (a b : bytes * bytes) : bool := bytes_eqb (fst a) (fst b) && bytes_eqb (snd a) (snd b).
Definition same_ci (a b : bytes * bytes) : bool := ci_eqb (fst a) (fst b).
Definition same_id (a b : N * bytes) : bool := N.eqb (fst a) (fst b).

Definition v_method (e : eff) : reff N := match e with SetMethod n => RSet n | _ => RNop end.
Definition v_resource (e : eff) : reff bytes := match e with SetResource b => RSet b | _ => RNop end.
Definition v_version (e : eff) : reff N := match e with SetVersion n => RSet n | _ => RNop end.
Definition v_code (e : eff) : reff Z := match e with SetCode z => RSet z | _ => RNop end.
Definition v_query (e : eff) : ceff (bytes * bytes) := match e with AddQuery k v => CIns (k, v) | _ => CNop end.
Definition v_cookies (e : eff) : ceff (bytes * bytes) :=
  match e with AddCookie k v => CIns (k, v) | ClearCookies => CClr | _ => CNop end.
Definition v_typed (e : eff) : ceff (N * bytes) := match e with AddTyped i v => CIns (i, v) | _ => CNop end.
Definition v_raw (e : eff) : ceff (bytes * bytes) := match e with AddRaw k v => CIns (k, v) | _ => CNop end.

Definition apply1 (m : msg) (e : eff) : msg :=
  mkMsg (rapply1 N (m_method m) (v_method e))
        (rapply1 bytes (m_resource m) (v_resource e))
        (capply1 _ same_key (m_query m) (v_query e))
        (rapply1 N (m_version m) (v_version e))
        (rapply1 Z (m_code m) (v_code e))
        (capply1 _ same_pair (m_cookies m) (v_cookies e))
        (capply1 _ same_id (m_typed m) (v_typed e))
        (capply1 _ same_ci (m_raw m) (v_raw e))
        (m_body m).
Definition apply (m : msg) (s : list eff) : msg := fold_left apply1 s m.

(* ---------- tables ---------- *)

Fixpoint find_idx {A} (p : A -> bool) (l : list A) (i : N) : option N :=
  match l with [] => None | x :: r => if p x then Some i else find_idx p r (i + 1)%N end.

(* httpMethods.find(text): exact match on the wire strings *)
Definition method_lookup (tok : bytes) : option N :=
  find_idx (fun p : string * string => bytes_eqb tok (list_of_string (snd p))) http_methods 0%N.

(* Registry (LowercaseHash / LowercaseEqual): case-insensitive match on registered names *)
Definition reg_lookup (name : bytes) : option N :=
  find_idx (fun p : string * string => ci_eqb name (list_of_string (snd p))) registered_headers 0%N.

Definition id_content_length : option N := reg_lookup (list_of_string "Content-Length").
Definition id_transfer_encoding : option N := reg_lookup (list_of_string "Transfer-Encoding").

Definition typed_get (m : msg) (id : option N) : option bytes :=
  match id with
  | None => None
  | Some i => match find (fun p : N * bytes => N.eqb (fst p) i) (m_typed m) with
              | Some p => Some (snd p) | None => None end
  end.

(* ContentLength::parse *)
Definition cl_value (raw : bytes) : N :=
  match stoull raw with UllOk v => v | _ => 0%N end.
Definition cl_check (raw : bytes) : option err :=
  match stoull raw with UllRange => Some EExc | _ => None end.

(* EncodingHeader::parseRaw: gzip, deflate, compress, identity, chunked tried in that order
   with strncasecmp(str, name, len) *)
Definition te_is_chunked (raw : bytes) : bool :=
  negb (strncase_eq raw (list_of_string "gzip")) && negb (strncase_eq raw (list_of_string "deflate"))
  && negb (strncase_eq raw (list_of_string "compress")) && negb (strncase_eq raw (list_of_string "identity"))
  && strncase_eq raw (list_of_string "chunked").

(* ---------- CookieJar::addFromRaw ---------- *)

Fixpoint split_at (c : ascii) (s : bytes) : option (bytes * bytes) :=  (* text before c, text from c on *)
  match s with
  | [] => None
  | x :: r => if ascii_eqb x c then Some ([], s)
              else match split_at c r with Some (a, b) => Some (x :: a, b) | None => None end
  end.

Fixpoint skip_blanks (s : bytes) : bytes :=
  match s with c :: r => if ascii_eqb c " " || ascii_eqb c "009" then skip_blanks r else s | [] => [] end.

(* returns the effects performed and whether it ended by throwing *)
Fixpoint cookie_header (fuel : nat) (s : bytes) : list eff * bool :=
  match fuel with
  | O => ([], false)
  | S f =>
      match s with
      | [] => ([], false)
      | _ =>
          match split_at "=" s with
          | None => ([], true)                                   (* "Invalid cookie, missing value" *)
          | Some (name, rest) =>
              let afterEq := tl rest in
              let '(value, rest2) := match split_at ";" afterEq with
                                     | Some (v, r) => (v, tl r)   (* advance(1) over ';' *)
                                     | None => (afterEq, [])
                                     end in
              let '(es, thrown) := cookie_header f (skip_blanks rest2) in
              (AddCookie name value :: es, thrown)
          end
      end
  end.

(* ---------- restartable steps as character automata ---------- *)

Section Steps.
  (* what the registry's typed parser does with a value of header [id] other than
     Content-Length: None = accepted, Some e = throws e.  Arbitrary but deterministic. *)
  Variable typed_other : N -> bytes -> option err.
  (* Cookie::fromRaw on a Set-Cookie value: Some (name, value) or throws *)
  Variable set_cookie : bytes -> option (bytes * bytes).

  Definition typed_check (id : N) (v : bytes) : option err :=
    if match id_content_length with Some i => N.eqb i id | None => false end then cl_check v
    else typed_other id v.

  Inductive fin := FNext | FErr (e : err).

  (* --- RequestLineStep --- *)
  Inductive rl :=
  | RL_Method (racc : bytes) | RL_Resource (racc : bytes) | RL_QHead | RL_QKey (racc : bytes)
  | RL_QVal (key racc : bytes) | RL_Version (racc : bytes) | RL_End (f : fin).

  Definition rl_final (s : rl) : option fin := match s with RL_End f => Some f | _ => None end.

  Definition rl_qkey (racc : bytes) (c : ascii) : rl * list eff :=
    if ascii_eqb c "=" then (RL_QVal (rev racc) [], [])
    else if ascii_eqb c " " then (RL_Version [], [AddQuery (rev racc) []])
    else if ascii_eqb c "&" then (RL_QHead, [AddQuery (rev racc) []])
    else (RL_QKey (c :: racc), []).

  Definition version_of (ver : bytes) : option N :=
    if strncmp_eq ver (list_of_string "HTTP/1.0") then Some 0%N
    else if strncmp_eq ver (list_of_string "HTTP/1.1") then Some 1%N
    else None.

  Definition rl_delta (s : rl) (c : ascii) : rl * list eff :=
    match s with
    | RL_Method racc =>
        if ascii_eqb c " " then
          match method_lookup (rev racc) with
          | Some m => (RL_Resource [], [SetMethod m])
          | None => (RL_End (FErr (EHttp 400)), [])
          end
        else (RL_Method (c :: racc), [])
    | RL_Resource racc =>
        if ascii_eqb c "?" then (RL_QHead, [SetResource (rev racc)])
        else if ascii_eqb c " " then (RL_Version [], [SetResource (rev racc)])
        else (RL_Resource (c :: racc), [])
    | RL_QHead => if ascii_eqb c " " then (RL_Version [], []) else rl_qkey [] c
    | RL_QKey racc => rl_qkey racc c
    | RL_QVal key racc =>
        if ascii_eqb c " " then (RL_Version [], [AddQuery key (rev racc)])
        else if ascii_eqb c "&" then (RL_QHead, [AddQuery key (rev racc)])
        else (RL_QVal key (c :: racc), [])
    | RL_Version racc =>
        match racc with
        | p :: r' =>
            if ascii_eqb c c_lf && ascii_eqb p c_cr then
              match version_of (rev r') with
              | Some v => (RL_End FNext, [SetVersion v])
              | None => (RL_End (FErr (EHttp 400)), [])
              end
            else (RL_Version (c :: racc), [])
        | [] => (RL_Version [c], [])
        end
    | RL_End f => (RL_End f, [])
    end.

  (* --- ResponseLineStep --- *)
  Inductive rs :=
  | RS_Ver (racc : bytes) | RS_AfterVer | RS_Code (racc : bytes) | RS_Reason (prev_cr : bool) | RS_End (f : fin).

  Definition rs_final (s : rs) : option fin := match s with RS_End f => Some f | _ => None end.

  Definition rs_delta (s : rs) (c : ascii) : rs * list eff :=
    match s with
    | RS_Ver racc =>
        let racc' := c :: racc in
        if (length racc' <? 8)%nat then (RS_Ver racc', [])
        else let tok := rev racc' in
             if bytes_eqb tok (list_of_string "HTTP/1.1") || bytes_eqb tok (list_of_string "HTTP/1.0")
             then (RS_AfterVer, []) else (RS_End (FErr (EHttp 400)), [])
    | RS_AfterVer =>
        (* (n = current()) != Eof && n != ' ': a 0xFF byte compares equal to Eof *)
        if ascii_eqb c " " || ascii_eqb c c_ff then (RS_Code [], []) else (RS_End (FErr (EHttp 400)), [])
    | RS_Code racc =>
        if ascii_eqb c " " then
          match strtol_all 10 (rev racc) with
          | Some z => (RS_Reason false, [SetCode (wrap_int32 z)])
          | None => (RS_End (FErr (EHttp 400)), [])
          end
        else (RS_Code (c :: racc), [])
    | RS_Reason prev_cr =>
        if prev_cr && ascii_eqb c c_lf then (RS_End FNext, []) else (RS_Reason (ascii_eqb c c_cr), [])
    | RS_End f => (RS_End f, [])
    end.

  (* --- HeadersStep --- *)
  Inductive hs :=
  | H_LineStart | H_StartCR | H_Name (racc : bytes) | H_SkipSp (name : bytes)
  | H_Value (name racc : bytes) | H_End (f : fin).

  Definition hs_final (s : hs) : option fin := match s with H_End f => Some f | _ => None end.

  Definition process_header (name value : bytes) : hs * list eff :=
    let lname := lower_bytes name in
    if bytes_eqb lname (list_of_string "cookie") then
      let '(es, thrown) := cookie_header (S (length value)) value in
      if thrown then (H_End (FErr EExc), ClearCookies :: es)
      else (H_LineStart, ClearCookies :: es ++ [AddRaw name value])
    else if bytes_eqb lname (list_of_string "set-cookie") then
      match set_cookie value with
      | Some (k, v) => (H_LineStart, [AddCookie k v; AddRaw name value])
      | None => (H_End (FErr EExc), [])
      end
    else match reg_lookup name with
         | Some id =>
             match typed_check id value with
             | Some e => (H_End (FErr e), [])
             | None => (H_LineStart, [AddTyped id value; AddRaw name value])
             end
         | None => (H_LineStart, [AddRaw name value])
         end.

  Definition name_char (racc : bytes) (c : ascii) : hs * list eff :=
    if ascii_eqb c ":" then (H_SkipSp (rev racc), []) else (H_Name (c :: racc), []).

  Definition value_char (name racc : bytes) (c : ascii) : hs * list eff :=
    match racc with
    | p :: r' => if ascii_eqb c c_lf && ascii_eqb p c_cr then process_header name (rev r')
                 else (H_Value name (c :: racc), [])
    | [] => (H_Value name [c], [])
    end.

  Definition hs_delta (s : hs) (c : ascii) : hs * list eff :=
    match s with
    | H_LineStart => if ascii_eqb c c_cr then (H_StartCR, []) else name_char [] c
    | H_StartCR => if ascii_eqb c c_lf then (H_End FNext, []) else name_char [c_cr] c
    | H_Name racc => name_char racc c
    | H_SkipSp name => if ascii_eqb c " " then (H_SkipSp name, []) else value_char name [] c
    | H_Value name racc => value_char name racc c
    | H_End f => (H_End f, [])
    end.

  Inductive kind := KRequest | KResponse.

  Definition line_step (k : kind) (d : bytes) : ares eff fin :=
    match k with
    | KRequest => arun rl eff fin rl_delta rl_final (RL_Method []) [] 0 d
    | KResponse => arun rs eff fin rs_delta rs_final (RS_Ver []) [] 0 d
    end.
  Definition headers_step (d : bytes) : ares eff fin :=
    arun hs eff fin hs_delta hs_final H_LineStart [] 0 d.

  (* ---------- BodyStep ---------- *)

  Record bstate := mkB { b_read : N; b_chunk : option (N * N) }.   (* bytesRead; (size, alreadyAppended) *)
  Definition bstate_init : bstate := mkB 0%N None.

  Inductive bres :=
  | BAgain (body : bytes) (bs : bstate) (consumed : nat)
  | BDone (body : bytes) (consumed : nat)
  | BErr (e : err) (body : bytes).

  (* parseContentLength *)
  Definition body_cl (cl : N) (body : bytes) (bs : bstate) (rest : bytes) : bres :=
    let need := if (0 <? b_read bs)%N then (cl - b_read bs)%N else cl in
    let avail := N.of_nat (length rest) in
    if (avail <? need)%N then
      BAgain (body ++ rest) (mkB (b_read bs + avail)%N (b_chunk bs)) (length rest)
    else
      BDone (body ++ firstn (N.to_nat need) rest) (N.to_nat need).

  (* position of the first CR LF pair *)
  Fixpoint find_eol (s : bytes) : option nat :=
    match s with
    | a :: ((b :: _) as r) => if ascii_eqb a c_cr && ascii_eqb b c_lf then Some O
                              else match find_eol r with Some i => Some (S i) | None => None end
    | _ => None
    end.

  Inductive cres :=
  | CIncomplete (body : bytes) (ch : option (N * N)) (consumed : nat)
  | CComplete (body : bytes) (consumed : nat)
  | CFinal (consumed : nat)
  | CThrow.

  (* after the last-chunk ("0" CRLF): trailer fields, each a line ending in CRLF, then the CRLF that ends the chunked body
     (fix of the third seeding round; before, any two bytes behind the last-chunk ended the message).  A line that is not
     complete yet leaves the cursor at its start. *)
  Fixpoint trailers (fuel : nat) (body : bytes) (already : N) (rest : bytes) (pre : nat) : cres :=
    match fuel with
    | O => CIncomplete body (Some (0%N, already)) pre
    | S f =>
        match rest with
        | a :: b :: _ =>
            if ascii_eqb a c_cr && ascii_eqb b c_lf then CFinal (pre + 2)
            else match find_eol rest with
                 | None => CIncomplete body (Some (0%N, already)) pre
                 | Some i => trailers f body already (skipn (i + 2) rest) (pre + (i + 2))
                 end
        | _ => CIncomplete body (Some (0%N, already)) pre
        end
    end.

  (* the part of Chunk::parse after the size is known *)
  Definition chunk_data (size already : N) (body : bytes) (rest : bytes) (pre : nat) : cres :=
    if (size =? 0)%N then trailers (S (length rest)) body already rest pre
    else
      let avail := Z.of_nat (length rest) in
      let missing := (Z.of_N size - Z.of_N already)%Z in
      if (avail - 2 <? missing)%Z then
        let data := Z.to_nat (Z.min avail missing) in
        CIncomplete (body ++ firstn data rest) (Some (size, (already + N.of_nat data)%N)) (pre + data)
      else
        CComplete (body ++ firstn (Z.to_nat missing) rest) (pre + Z.to_nat missing + 2).

  Definition chunk_parse (ch : option (N * N)) (body : bytes) (rest : bytes) : cres :=
    match ch with
    | Some (size, already) => chunk_data size already body rest 0
    | None =>
        match find_eol rest with
        | None => CIncomplete body None 0
        | Some i =>
            match strtol_all 16 (firstn i rest) with
            | Some z => if (z <? 0)%Z then CThrow
                        else chunk_data (Z.to_N z) 0 body (skipn (i + 2) rest) (i + 2)
            | None => CThrow
            end
        end
    end.

  (* the loop of parseTransferEncoding *)
  Fixpoint chunk_loop (fuel : nat) (ch : option (N * N)) (body : bytes) (rest : bytes) (pre : nat)
                      (rd : N) : bres :=
    match fuel with
    | O => BErr EExc body              (* not reachable with fuel > length rest *)
    | S f =>
        match chunk_parse ch body rest with
        | CThrow => BErr (EHttp 400) body
        | CIncomplete body' ch' c => BAgain body' (mkB rd ch') (pre + c)
        | CFinal c => BDone body (pre + c)
        | CComplete body' c =>
            let rest' := skipn c rest in
            match rest' with
            | [] => BAgain body' (mkB rd None) (pre + c)
            | _ => chunk_loop f None body' rest' (pre + c) rd
            end
        end
    end.

  Definition body_step (m : msg) (bs : bstate) (rest : bytes) : bres :=
    let cl := typed_get m id_content_length in
    let te := typed_get m id_transfer_encoding in
    match cl, te with
    | Some _, Some _ => BErr (EHttp 400) (m_body m)
    | Some c, None => body_cl (cl_value c) (m_body m) bs rest
    | None, Some t =>
        if te_is_chunked t then chunk_loop (S (length rest)) (b_chunk bs) (m_body m) rest 0 (b_read bs)
        else BErr (EHttp 501) (m_body m)
    | None, None => BDone (m_body m) 0
    end.

  (* ---------- ParserBase ---------- *)

  Record pstate := mkP { p_buf : bytes; p_cur : nat; p_step : nat; p_msg : msg; p_bs : bstate }.
  Definition pstate_init : pstate := mkP [] 0 0 msg_init bstate_init.

  Inductive pres := PAgain | PDone | PErr (e : err).

  Definition set_body (m : msg) (b : bytes) : msg :=
    mkMsg (m_method m) (m_resource m) (m_query m) (m_version m) (m_code m) (m_cookies m)
          (m_typed m) (m_raw m) b.

  Definition parse2 (st : pstate) : pres * pstate :=
    match body_step (p_msg st) (p_bs st) (skipn (p_cur st) (p_buf st)) with
    | BAgain body bs c => (PAgain, mkP (p_buf st) (p_cur st + c) 2 (set_body (p_msg st) body) bs)
    | BDone body c => (PDone, mkP (p_buf st) (p_cur st + c) 2 (set_body (p_msg st) body) bstate_init)
    (* after an exception the cursor is meaningless until reset(); pinned to 0 here *)
    | BErr e body => (PErr e, mkP (p_buf st) 0 2 (set_body (p_msg st) body) bstate_init)
    end.

  Definition restart_step (r : ares eff fin) (next : nat) (st : pstate) (k : pstate -> pres * pstate)
    : pres * pstate :=
    let m' := apply (p_msg st) (aeffs eff fin r) in
    match r with
    | AAgain _ => (PAgain, mkP (p_buf st) (p_cur st) (p_step st) m' (p_bs st))
    | ASettled (FErr e) _ _ => (PErr e, mkP (p_buf st) (p_cur st) (p_step st) m' (p_bs st))
    | ASettled FNext n _ => k (mkP (p_buf st) (p_cur st + n) next m' (p_bs st))
    end.

  Definition parse1 (st : pstate) : pres * pstate :=
    restart_step (headers_step (skipn (p_cur st) (p_buf st))) 2 st parse2.

  Definition parse0 (k : kind) (st : pstate) : pres * pstate :=
    restart_step (line_step k (skipn (p_cur st) (p_buf st))) 1 st parse1.

  (* ParserBase::parse *)
  Definition parse (k : kind) (st : pstate) : pres * pstate :=
    match p_step st with
    | 0 => parse0 k st
    | 1 => parse1 st
    | _ => parse2 st
    end.

  (* ArrayStreamBuf::feed: refused when the total would exceed maxSize *)
  Definition feed_raw (st : pstate) (seg : bytes) : pstate :=
    mkP (p_buf st ++ seg) (p_cur st) (p_step st) (p_msg st) (p_bs st).
  Definition feed (maxsz : nat) (st : pstate) (seg : bytes) : option pstate :=
    if (maxsz <? length (p_buf st) + length seg)%nat then None else Some (feed_raw st seg).

  (* the fields a later run can read *)
  Definition observe (st : pstate) := (p_buf st, p_cur st, p_step st, p_msg st, p_bs st).

  (* ParserImpl<Request>::reset *)
  Definition reset (st : pstate) : pstate := pstate_init.

  (* feed the segments one read at a time, parse after each, stop at the first result that is
     not Again; returns the results in order and the final state *)
  Fixpoint run_inc (k : kind) (st : pstate) (segs : list bytes) : list pres * pstate :=
    match segs with
    | [] => ([], st)
    | s :: rest =>
        let '(r, st') := parse k (feed_raw st s) in
        match r with
        | PAgain => let '(rs, st'') := run_inc k st' rest in (r :: rs, st'')
        | _ => ([r], st')
        end
    end.

  Definition whole (k : kind) (b : bytes) : pres * pstate := parse k (feed_raw pstate_init b).
End Steps.
