(* C16 — typed headers survive write/parse and are found under any capitalisation (partial:
   Content-Length over its whole range, the enumerated headers, Host, and the case-insensitive
   first-occurrence-wins lookup are theorems; Cache-Control directive lists, Content-Type (see C18),
   Authorization (see C20) and Date are decided by the correspondence check). *)
From Coq Require Import Ascii String List NArith Arith.
Require Import Bytes NumParse NetLemmas HeaderModel HeaderLemmas.
Import ListNotations.

Theorem C16_content_length_roundtrip : forall n, (n <= 18446744073709551615)%N -> cl_parse (cl_write n) = n.
Proof. exact cl_roundtrip. Qed.
Print Assumptions C16_content_length_roundtrip.

Theorem C16_connection_roundtrip : forall c, (c <= 2)%N -> conn_parse (conn_write c) = c.
Proof. exact conn_roundtrip. Qed.
Print Assumptions C16_connection_roundtrip.

Theorem C16_encoding_roundtrip : forall e, (e <= 5)%N -> enc_parse (enc_write e) = e.
Proof. exact enc_roundtrip. Qed.
Print Assumptions C16_encoding_roundtrip.

Theorem C16_expect_roundtrip : forall e, (e <= 1)%N -> expect_parse (expect_write e) = e.
Proof. exact expect_roundtrip. Qed.
Print Assumptions C16_expect_roundtrip.

Theorem C16_host_roundtrip : forall h p, plain h -> (1 <= p <= 65535)%N -> host_parse (host_write (h, p)) = Some (h, p).
Proof. exact host_roundtrip. Qed.
Print Assumptions C16_host_roundtrip.

(* every header of a message - registered or not - is found under any capitalisation of its name,
   with the value of its first occurrence *)
Theorem C16_lookup_first_occurrence : forall hs k, hdr_lookup (hdr_collect hs) k = first_ci hs k.
Proof. exact lookup_ci. Qed.
Print Assumptions C16_lookup_first_occurrence.

Theorem C16_lookup_any_capitalisation : forall hs k k',
  ci_eqb k k' = true -> hdr_lookup (hdr_collect hs) k = hdr_lookup (hdr_collect hs) k'.
Proof. exact lookup_any_case. Qed.
Print Assumptions C16_lookup_any_capitalisation.

(* Server: every list of product tokens (non-empty, without blanks) is read back as the same list *)
Theorem C16_server_roundtrip : forall ts, Forall token_ok ts -> server_parse (server_write ts) = ts.
Proof. exact server_roundtrip. Qed.
Print Assumptions C16_server_roundtrip.

(* Cache-Control: every list of directives (the eight plain ones; max-age / max-stale / min-fresh / s-maxage
   with any delta-seconds 0..LONG_MAX) is read back as the same list *)
Theorem C16_cache_control_roundtrip : forall ds, Forall ok_dir ds -> cc_parse_top (cc_write ds) = Some ds.
Proof. exact cc_roundtrip. Qed.
Print Assumptions C16_cache_control_roundtrip.
