From Coq Require Import Ascii String List NArith Bool Arith Lia.
Require Import Bytes TablesGen WireModel.
Import ListNotations.

Theorem put_on_wire_emitted cap code hs cs body b n :
  put_on_wire cap code hs cs body = Emitted b n ->
  b = render_response code hs cs body /\ n = length b /\ length b <= cap.
Proof.
  unfold put_on_wire. destruct (Nat.leb_spec (length (render_response code hs cs body)) cap); [|discriminate].
  intros Hx. inversion Hx; subst. auto.
Qed.

Theorem put_on_wire_rejected cap code hs cs body :
  put_on_wire cap code hs cs body = Rejected <-> cap < length (render_response code hs cs body).
Proof.
  unfold put_on_wire. destruct (Nat.leb_spec (length (render_response code hs cs body)) cap) as [Hle|Hgt]; split; intros Hx; try discriminate; try lia; try reflexivity.
Qed.

Theorem exact_at_cap code hs cs body :
  let n := length (render_response code hs cs body) in
  put_on_wire n code hs cs body = Emitted (render_response code hs cs body) n
  /\ put_on_wire (n - 1) code hs cs body = Rejected.
Proof.
  cbv zeta. split.
  - unfold put_on_wire. rewrite Nat.leb_refl. reflexivity.
  - apply put_on_wire_rejected.
    assert (0 < length (render_response code hs cs body)).
    { unfold render_response, status_line. rewrite !app_length. cbn [length list_of_string]. lia. }
    lia.
Qed.

(* the message ends with a blank line and exactly the body, and announces exactly its length *)
Theorem render_framing code hs cs body :
  exists head, render_response code hs cs body
    = head ++ list_of_string "Content-Length: " ++ print_dec (N.of_nat (length body)) ++ crlf ++ crlf ++ body.
Proof.
  unfold render_response. eexists. rewrite !app_assoc. reflexivity.
Qed.

(* the client's request: the framework-owned lines are always there, Content-Length exactly when there
   is a body, and the message ends with a blank line and the body *)
Definition request_head m (path q : bytes) (cs hs : list (bytes * bytes)) : bytes :=
  m ++ " "%char :: (match path with c :: _ => if ascii_eqb c "/" then [] else ["/"%char] | [] => ["/"%char] end)
  ++ path ++ q ++ list_of_string " HTTP/1.1" ++ crlf
  ++ list_of_string "Cookie: "
  ++ (match cs with
      | [] => []
      | c :: r => fst c ++ "="%char :: snd c ++ flat_map (fun e : bytes * bytes => list_of_string "; " ++ fst e ++ "="%char :: snd e) r
      end) ++ crlf
  ++ flat_map header_line hs.

Theorem request_framing_body m host path q cs hs body :
  body <> [] ->
  write_request m host path q cs hs body
    = request_head m path q cs hs ++ list_of_string "User-Agent: pistache/0.1" ++ crlf ++ list_of_string "Host: " ++ host ++ crlf
      ++ list_of_string "Content-Length: " ++ print_dec (N.of_nat (length body)) ++ crlf ++ crlf ++ body.
Proof.
  intros Hb. unfold write_request, request_head. destruct body as [|b0 br]; [congruence|].
  repeat rewrite <- app_assoc. repeat rewrite <- app_comm_cons. repeat rewrite <- app_assoc. reflexivity.
Qed.

Theorem request_framing_nobody m host path q cs hs :
  write_request m host path q cs hs []
    = request_head m path q cs hs ++ list_of_string "User-Agent: pistache/0.1" ++ crlf ++ list_of_string "Host: " ++ host ++ crlf ++ crlf.
Proof.
  unfold write_request, request_head. cbn [app]. rewrite !app_nil_r.
  repeat rewrite <- app_assoc. repeat rewrite <- app_comm_cons. repeat rewrite <- app_assoc. reflexivity.
Qed.
