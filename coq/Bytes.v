(* Shared byte-level definitions: bytes are [ascii]; enumeration of all 256 bytes for
   finite sweeps; decimal/hex printing and parsing on N. *)
From Coq Require Import Ascii String List NArith Bool Lia.
Import ListNotations.
Local Open Scope N_scope.

Definition byte := ascii.
Definition bytes := list ascii.

Definition b2n (a : ascii) : N := N_of_ascii a.
Definition n2b (n : N) : ascii := ascii_of_N n.

Fixpoint nrange (n : nat) : list N :=
  match n with O => [] | S k => nrange k ++ [N.of_nat k] end.

Definition all_bytes : list ascii := map n2b (nrange 256).

Fixpoint list_of_string (s : string) : list ascii :=
  match s with EmptyString => [] | String a r => a :: list_of_string r end.
Coercion list_of_string : string >-> list.

Definition ascii_eqb (a b : ascii) : bool := Ascii.eqb a b.

Fixpoint bytes_eqb (a b : bytes) : bool :=
  match a, b with
  | [], [] => true
  | x :: a', y :: b' => ascii_eqb x y && bytes_eqb a' b'
  | _, _ => false
  end.

(* ---- C-locale character classes and case folding ---- *)
Definition in_range (c : ascii) (lo hi : N) : bool := (lo <=? b2n c) && (b2n c <=? hi).
Definition is_upper (c : ascii) := in_range c 65 90.
Definition is_digit (c : ascii) := in_range c 48 57.
(* isspace in the C locale: HT LF VT FF CR SP *)
Definition is_space (c : ascii) := in_range c 9 13 || ascii_eqb c " ".
Definition lower (c : ascii) : ascii := if is_upper c then n2b (b2n c + 32) else c.
Definition lower_bytes (s : bytes) : bytes := map lower s.
Definition ci_eqb (a b : bytes) : bool := bytes_eqb (lower_bytes a) (lower_bytes b).

Definition c_sp : ascii := " ".
Definition c_cr : ascii := "013".
Definition c_lf : ascii := "010".
Definition c_nul : ascii := "000".
Definition c_ff : ascii := "255".

(* value of a digit in the given base (10 or 16), None if not a digit of that base *)
Definition digit_val (base : N) (c : ascii) : option N :=
  let n := b2n c in
  if is_digit c then Some (n - 48)
  else if (base =? 16) && in_range c 97 102 then Some (n - 87)
  else if (base =? 16) && in_range c 65 70 then Some (n - 55)
  else None.

(* decimal printing of N, most significant digit first *)
Fixpoint dec_digits (fuel : nat) (n : N) (acc : bytes) : bytes :=
  match fuel with
  | O => acc
  | S f => let acc' := n2b (48 + n mod 10) :: acc in
           if n / 10 =? 0 then acc' else dec_digits f (n / 10) acc'
  end.
Definition print_dec (n : N) : bytes := dec_digits (S (N.to_nat (N.log2 n))) n [].
