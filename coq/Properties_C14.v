(* C14 — size limits and read time-outs are enforced exactly (size rule over the parser model;
   time-out decision rule of checkIdlePeers). *)
From Coq Require Import Ascii String List NArith Arith.
Require Import Bytes Restartable ParserModel ParserLemmas HandlerModel HandlerLemmas.
Import ListNotations.

(* One request delivered in reads [segs] (every proper prefix at a read boundary being an
   incomplete message; the last read may hold more than the end of the request).  Within the
   limit - the bytes are not more than the limit, or the request is complete (or refused for
   another reason) within its first [maxsz] bytes, what follows it in the last read not counting
   for its size: no read is refused and the last read produces the outcome of the whole request.
   Over the limit: the reads that fit are waited for, the first read that crosses the limit is
   answered 413, and the handler is never reached before. *)
Theorem C14_size_exact :
  forall typed_other set_cookie maxsz segs acc stc,
    whole typed_other set_cookie KRequest acc = (PAgain, stc) -> length acc <= maxsz -> segs <> [] ->
    (forall k, k < length segs ->
       fst (whole typed_other set_cookie KRequest (acc ++ concat (firstn k segs))) = PAgain) ->
    if within typed_other set_cookie maxsz (acc ++ concat segs)
    then fst (connection typed_other set_cookie maxsz stc segs)
         = repeat AWait (length segs - 1)
           ++ [act_of (whole typed_other set_cookie KRequest (acc ++ concat segs))]
    else exists j, j < length segs
         /\ fst (connection typed_other set_cookie maxsz stc segs)
            = repeat AWait j ++ ARespond 413
                :: skipn (S j) (fst (connection typed_other set_cookie maxsz stc segs))
         /\ length (acc ++ concat (firstn j segs)) <= maxsz < length (acc ++ concat (firstn (S j) segs)).
Proof. exact size_rule. Qed.
Print Assumptions C14_size_exact.

Theorem C14_timeout_rule : forall step elapsed hT bT,
  idle step elapsed hT bT = true <->
  ((step < 2) /\ (hT < elapsed \/ bT < elapsed)%N) \/ ((2 <= step) /\ (bT < elapsed)%N).
Proof. exact idle_rule. Qed.
Print Assumptions C14_timeout_rule.

Theorem C14_never_timed_out_early : forall step elapsed hT bT,
  (elapsed <= hT)%N -> (elapsed <= bT)%N -> idle step elapsed hT bT = false.
Proof. exact idle_never_early. Qed.
Print Assumptions C14_never_timed_out_early.

Theorem C14_timed_out_after_body_timeout : forall step elapsed hT bT,
  (bT < elapsed)%N -> idle step elapsed hT bT = true.
Proof. exact idle_after_body_timeout. Qed.
Print Assumptions C14_timed_out_after_body_timeout.

Theorem C14_head_timed_out_after_header_timeout : forall step elapsed hT bT,
  step < 2 -> (hT < elapsed)%N -> idle step elapsed hT bT = true.
Proof. exact idle_head_after_header_timeout. Qed.
Print Assumptions C14_head_timed_out_after_header_timeout.

(* A refused request is not delivered in pieces either.  On a live connection (HandlerModel.serve = Handler::onInput read by
   read) the first refusal - 413 for the size, or the parser's 4xx/5xx - is the last thing that happens: whatever bytes
   follow (the rest of the refused request, a request hidden in its body, further requests) the handler is not called and
   no further response is sent (fix of the third seeding round; before it the rest of a refused request was parsed as new
   requests: "[413, 200]" with a handler call for a request the client never sent). *)
Theorem C14_nothing_after_refusal : forall typed_other set_cookie reads maxsz st all pre c post,
  serve typed_other set_cookie maxsz st reads = Some all -> all = pre ++ ARespond c :: post ->
  forallb (fun a => negb (is_respond a)) pre = true ->
  forallb is_wait post = true.
Proof. exact nothing_after_refusal. Qed.
Print Assumptions C14_nothing_after_refusal.

(* ... and [serve] always is [Some]: the loop of Handler::onInput over the requests of one read ends (every pass that
   completes a request consumes at least one byte), from every parser state a connection can be in *)
Theorem C14_serving_a_read_ends : forall typed_other set_cookie reads maxsz st,
  good st -> exists all, serve typed_other set_cookie maxsz st reads = Some all.
Proof. exact serve_total. Qed.
Print Assumptions C14_serving_a_read_ends.

(* a request within the limit is never refused for its size, whatever follows it in the same read (a client that
   pipelines): the handler gets it, and what follows is served from a fresh parser *)
Theorem C14_within_limit_served_whatever_follows : forall typed_other set_cookie maxsz r m r2 fuel,
  exact_request typed_other set_cookie r m -> length r <= maxsz -> r2 <> [] ->
  on_read typed_other set_cookie (S fuel) maxsz pstate_init (r ++ r2) =
  match on_read typed_other set_cookie fuel maxsz pstate_init r2 with
  | Some (acts, st) => Some (AHandler m :: acts, st)
  | None => None
  end.
Proof. exact pipelined_as_fresh. Qed.
Print Assumptions C14_within_limit_served_whatever_follows.
