(* Executable instance of the parser model's two parameters, used by the extracted driver. *)
From Coq Require Import Ascii String List NArith ZArith Bool.
Require Import Bytes NumParse Restartable TablesGen ParserModel NetModel HeaderModel.
Import ListNotations.

(* typed headers other than Content-Length.  Host: AddressParser + Port(text) throw
   std::invalid_argument on a malformed address or a port that is not a number in 0..65535 - on every
   occurrence of the header, also one that the first-wins collection then discards.  For the other
   typed headers the correspondence generators only use values their parsers accept. *)
Definition id_host : option N := reg_lookup (list_of_string "Host").
Definition typed_other_inst (id : N) (v : bytes) : option err :=
  if match id_host with Some i => N.eqb i id | None => false end then
    match host_parse v with Some _ => None | None => Some EExc end
  else None.

(* Cookie::fromRaw restricted to what the parser observes: name up to '=', value up to ';' *)
Definition set_cookie_inst (v : bytes) : option (bytes * bytes) :=
  match split_at "=" v with
  | None => None
  | Some (name, rest) =>
      let afterEq := tl rest in
      match split_at ";" afterEq with
      | Some (value, _) => Some (name, value)
      | None => Some (name, afterEq)
      end
  end.

Definition parse_inst := parse typed_other_inst set_cookie_inst.
Definition run_inc_inst := run_inc typed_other_inst set_cookie_inst.
Definition reg_name (id : N) : bytes :=
  match nth_error registered_headers (N.to_nat id) with Some p => list_of_string (snd p) | None => [] end.
