(* Extraction of the executable models to OCaml.  ExtrOcamlBasic only; no Extract Constant /
   Extract Inductive of our own: nat, N, Z, positive, ascii stay the extracted inductives. *)
Require Import ExtrOcamlBasic.
Require Import Bytes Base64Model Rfc4648 NumParse Restartable TablesGen ParserModel ParserInst HandlerModel RouterModel QueueModel PromiseConc PromiseConcLemmas PromiseModel NetModel MimeModel CookieModel HeaderModel DateModel TransportModel WireModel LifecycleModel ClientModel DispatchModel ShutdownModel.
Extraction "model.ml"
  Bytes.n2b Bytes.b2n
  Base64Model.encode Base64Model.decode Base64Model.set_basic Base64Model.get_basic
  Rfc4648.rfc4648
  ParserModel.feed ParserModel.feed_raw ParserModel.pstate_init ParserModel.cl_value ParserModel.te_is_chunked
  ParserModel.typed_get ParserModel.id_content_length ParserModel.id_transfer_encoding
  ParserInst.parse_inst ParserInst.reg_name Bytes.lower_bytes
  RouterModel.add_route RouterModel.remove_route RouterModel.route
  QueueModel.run0 QueueModel.run_old QueueModel.init QueueModel.quiescent
  PromiseConcLemmas.init0 PromiseConcLemmas.run1 PromiseConc.grant PromiseConc.finished PromiseConc.count
  PromiseConcLemmas.cfg_base PromiseConcLemmas.cfg_derived PromiseConcLemmas.cfg_both PromiseConcLemmas.cfg_two_derived
  PromiseModel.run_prog
  NetModel.address_init NetModel.print_address NetModel.port_of_string Bytes.print_dec
  MimeModel.parse_media MimeModel.build_string MimeModel.to_string MimeModel.set_quality MimeModel.set_param TablesGen.mime_subtypes TablesGen.mime_suffixes
  CookieModel.from_raw CookieModel.write_cookie CookieModel.jar_add_from_raw
  HeaderModel.conn_parse HeaderModel.conn_write HeaderModel.enc_parse HeaderModel.enc_write HeaderModel.expect_parse HeaderModel.expect_write
  HeaderModel.cl_parse HeaderModel.cl_write HeaderModel.cc_write HeaderModel.cc_parse_top HeaderModel.host_parse HeaderModel.host_write HeaderModel.hdr_lookup HeaderModel.server_parse HeaderModel.server_write
  DateModel.date_write DateModel.date_parse DateModel.date_lo DateModel.date_hi DateModel.date_read DateModel.imf_write
  TransportModel.events TransportModel.issue TransportModel.on_ready TransportModel.drain_event
  WireModel.put_on_wire WireModel.render_stream WireModel.write_request WireModel.dechunk
  LifecycleModel.lrun LifecycleModel.qrun LifecycleModel.q_stale LifecycleModel.frun
  ClientModel.kstep ClientModel.kinit ClientModel.final ClientModel.hrun ClientModel.h_stuck
  DispatchModel.run DispatchModel.responses
  ShutdownModel.srun ShutdownModel.srun_from
  HandlerModel.idle HandlerModel.serve ParserInst.typed_other_inst ParserInst.set_cookie_inst.
