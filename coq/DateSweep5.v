(* the 86400 seconds of a day *)
From Coq Require Import ZArith.
Require Import Bytes DateModel DateSweepDefs.
Local Open Scope Z_scope.
Lemma times_sweep : all_from (Z.to_nat 86400) 0 time_ok = true.
Proof. vm_cast_no_check (eq_refl true). Qed.
