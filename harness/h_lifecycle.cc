// Harness for C08: connection lifecycle callbacks and descriptor balance on a live listener.
//
//   T <workers> <rounds> <b,b,...>    raw Tcp::Handler on a Tcp::Listener; every round runs the listed client
//        behaviours concurrently:  c connect+close, d data+close, f data/wait for echo/close, h data+shutdown(WR)+read to EOF,
//        r data+RST, R RST at once, p ask for a 4 MB write and close without reading,
//        K the handler keeps the peer and sends to it (Peer::send) 150 ms later; the client closes at once (fresh connections watched 300 ms)
//        n keeps the worker busy for 150 ms; u sends data and closes, v sends data and half-closes 40 ms into that (data and end
//          of stream reach the worker in one readiness event; nothing is written back, which would re-arm the descriptor)
//   H <workers> <rounds> <b,b,...>    Http::Endpoint (header/body time-out 600 ms) with an Http::Handler:
//        c connect+close, f request/response/close, k two keep-alive requests, d partial head+close, b partial body+close,
//        h request+shutdown(WR)+read to EOF, r request+RST, i silence until the server closes, j partial head then silence,
//        m request/response then silence until the server closes, z slow 24 MB answer requested and the connection closed at once, w 24 MB answer never read (write blocked across several idle scans) then RST
//        s 16 MB file asked for (Http::serveFile), 17 bytes read through a 4 kB receive buffer, close;  S the file downloaded completely;
//        A the file asked for, 2 MB of it read, then RST while the transfer is in full swing;
//        t answer sent after ResponseWriter::timeoutAfter(300 ms) was armed (the timer is disarmed by the answer)
//        P the writer moved to another thread, which arms the response time-out there (400 ms) and answers at once
//        G silent for 550 ms, then a request answered with a flushed stream; E (350 ms later) a request whose handler keeps the worker
//          busy for 700 ms: the idle scan's 408 for G is queued when G's request is handled, and completes inside its handler's flush
//        M the same with the writer moved between arming and answering; O armed (100 ms), moved to a thread that never answers: the
//          time-out fires (408) while the moved writer lives on; Y armed (100 ms), answered at once, the writer kept 350 ms
//        L request answered by a thread of the handler's own 150 ms later; the client closes at once, so the answer comes when
//          the connection is gone and its descriptor number belongs to one of the fresh connections (watched for 300 ms)
//   After every round as many fresh connections as the round had (at most 8) are opened together and each sends one
//   request: it must receive exactly its own answer and nothing else (what an earlier connection on the same descriptor
//   number left unsent must not reach it).
//     -> <T|H> conns=<connections made> logs=<sorted per-peer callback logs: C connection, I input/request (collapsed), D disconnection>
//            after_disc=<callbacks seen for a peer after its disconnection> fd_delta=<open descriptors at the end - idle baseline>
//            stale=<fresh connections that received something else than exactly their own answer>
// the standard headers first: the tables of Tcp::Transport (peers, toWrite, timers) are read through "#define private public"
#include <algorithm>
#include <array>
#include <atomic>
#include <bitset>
#include <chrono>
#include <condition_variable>
#include <cstring>
#include <deque>
#include <functional>
#include <iostream>
#include <list>
#include <map>
#include <memory>
#include <mutex>
#include <optional>
#include <set>
#include <sstream>
#include <stdexcept>
#include <string>
#include <thread>
#include <tuple>
#include <type_traits>
#include <unordered_map>
#include <unordered_set>
#include <vector>

#include "pv_net.h"
#include "pv_util.h"

#define private public
#define protected public
#include <pistache/endpoint.h>
#include <pistache/http.h>
#include <pistache/listener.h>
#include <pistache/peer.h>
#include <pistache/tcp.h>
#include <pistache/transport.h>
#undef private
#undef protected

#include <algorithm>
#include <atomic>
#include <chrono>
#include <dirent.h>
#include <map>
#include <mutex>
#include <thread>

#include "pv_net.h"
#include "pv_util.h"

using namespace Pistache;

namespace {
struct Log
{
    std::mutex m;
    std::map<size_t, std::string> per; // peer id -> callbacks
    int after_disc = 0;
    void add(size_t id, char c)
    {
        std::lock_guard<std::mutex> g(m);
        auto& s = per[id];
        if (!s.empty() && s.back() == 'D')
            ++after_disc;
        if (c == 'I' && !s.empty() && s.back() == 'I')
            return;
        s.push_back(c);
    }
    size_t count(char c)
    {
        std::lock_guard<std::mutex> g(m);
        size_t n = 0;
        for (auto& kv : per)
            n += static_cast<size_t>(std::count(kv.second.begin(), kv.second.end(), c));
        return n;
    }
    void clear()
    {
        std::lock_guard<std::mutex> g(m);
        per.clear();
        after_disc = 0;
    }
} g_log;

std::string g_file; // a 16 MB file for the file-transfer behaviours
std::atomic<int> g_stale { 0 };
std::atomic<int> g_more_ms { 30 };   // how long a fresh connection watches for bytes it did not ask for
std::atomic<int> g_late_running { 0 };
std::atomic<int> g_napping { 0 };    // a worker is inside the raw handler's nap

// the worker transports seen by the handlers; their tables are read when every client is gone
std::mutex g_tr_m;
std::set<Tcp::Transport*> g_transports;
void note_transport(Tcp::Transport* t)
{
    std::lock_guard<std::mutex> g(g_tr_m);
    g_transports.insert(t);
}
size_t table_entries()
{
    std::lock_guard<std::mutex> g(g_tr_m);
    size_t n = 0;
    for (auto* t : g_transports)
    {
        std::lock_guard<std::mutex> wl(t->toWriteLock);
        n += t->peers.size() + t->toWrite.size() + t->timers.size();
    }
    return n;
}

class RawHandler : public Tcp::Handler
{
public:
    PROTOTYPE_OF(Tcp::Handler, RawHandler)
    void onConnection(const std::shared_ptr<Tcp::Peer>& peer) override
    {
        note_transport(transport());
        g_log.add(peer->getID(), 'C');
    }
    void onDisconnection(const std::shared_ptr<Tcp::Peer>& peer) override { g_log.add(peer->getID(), 'D'); }
    void onInput(const char* buffer, size_t len, const std::shared_ptr<Tcp::Peer>& peer) override
    {
        g_log.add(peer->getID(), 'I');
        std::string cmd(buffer, len);
        if (cmd.rfind("nap", 0) == 0) // the worker is kept busy: what other connections send meanwhile is all there at its next look
        {
            ++g_napping;
            std::this_thread::sleep_for(std::chrono::milliseconds(150));
            --g_napping;
        }
        if (cmd.rfind("keep", 0) == 0)
        {
            // the handler keeps the peer (as code that pushes data to its clients does) and sends to it 150 ms later, when
            // the connection is gone and its descriptor number belongs to a fresh connection
            ++g_late_running;
            std::thread([peer] {
                std::this_thread::sleep_for(std::chrono::milliseconds(150));
                try
                {
                    peer->send(RawBuffer("LATE!", 5), MSG_NOSIGNAL).then([](ssize_t) {}, [](std::exception_ptr) {});
                }
                catch (...)
                {
                }
                --g_late_running;
            }).detach();
            return;
        }
        if (cmd.rfind("mute", 0) == 0) // nothing is written back (a write re-arms the descriptor in the poller)
            return;
        std::string data = cmd.rfind("big", 0) == 0 ? std::string(4u << 20, 'x') : std::string("ok");
        transport()->asyncWrite(peer->fd(), RawBuffer(data, data.size()), MSG_NOSIGNAL).then([](ssize_t) {}, [](std::exception_ptr) {});
    }
};

class HttpHandler : public Http::Handler
{
public:
    HTTP_PROTOTYPE(HttpHandler)
    void onRequest(const Http::Request& req, Http::ResponseWriter response) override
    {
        note_transport(transport());
        g_log.add(response.getPeer()->getID(), 'I');
        if (req.resource() == "/slowbig")
        {
            // the handler takes a while (the peer may be gone by the time it answers), then answers with a large body
            std::this_thread::sleep_for(std::chrono::milliseconds(200));
            response.send(Http::Code::Ok, std::string(24u << 20, 'y'));
        }
        else if (req.resource() == "/big")
            response.send(Http::Code::Ok, std::string(24u << 20, 'x'));
        else if (req.resource() == "/file")
            Http::serveFile(response, g_file);
        else if (req.resource() == "/late")
        {
            auto w = std::make_shared<Http::ResponseWriter>(std::move(response));
            ++g_late_running;
            std::thread([w] {
                std::this_thread::sleep_for(std::chrono::milliseconds(150));
                try
                {
                    w->send(Http::Code::Ok, "late answer");
                }
                catch (...)
                {
                }
                --g_late_running;
            }).detach();
        }
        else if (req.resource() == "/stream")
        {
            // a streamed answer with flushes: each flush drains everything that is queued for writing on this worker
            auto st = response.stream(Http::Code::Ok);
            st << "s:";
            st.flush();
            st << "tail";
            st.flush();
            st.ends();
        }
        else if (req.resource() == "/nap700")
        {
            std::this_thread::sleep_for(std::chrono::milliseconds(700));
            response.send(Http::Code::Ok, "hello /nap700");
        }
        else if (req.resource() == "/armelse")
        {
            // the writer is moved to another thread, which arms the response time-out there and answers
            auto w = std::make_shared<Http::ResponseWriter>(std::move(response));
            ++g_late_running;
            std::thread([w] {
                try
                {
                    w->timeoutAfter(std::chrono::milliseconds(400));
                    w->send(Http::Code::Ok, "hello /armelse");
                }
                catch (...)
                {
                }
                --g_late_running;
            }).detach();
        }
        else if (req.resource() == "/moved")
        {
            // the response time-out is armed, then the writer is moved (as a handler that hands it to another thread does)
            response.timeoutAfter(std::chrono::milliseconds(300));
            auto w = std::make_shared<Http::ResponseWriter>(std::move(response));
            w->send(Http::Code::Ok, "hello /moved");
        }
        else if (req.resource() == "/expired")
        {
            // armed, moved, never answered in time: the time-out fires while the moved writer is alive elsewhere
            response.timeoutAfter(std::chrono::milliseconds(100));
            auto w = std::make_shared<Http::ResponseWriter>(std::move(response));
            ++g_late_running;
            std::thread([w] {
                std::this_thread::sleep_for(std::chrono::milliseconds(350));
                --g_late_running;
            }).detach();
        }
        else if (req.resource() == "/kept")
        {
            // answered at once (which disarms the timer); the writer is kept alive beyond the timer's expiry
            response.timeoutAfter(std::chrono::milliseconds(100));
            auto w = std::make_shared<Http::ResponseWriter>(std::move(response));
            w->send(Http::Code::Ok, "hello /kept");
            ++g_late_running;
            std::thread([w] {
                std::this_thread::sleep_for(std::chrono::milliseconds(350));
                --g_late_running;
            }).detach();
        }
        else if (req.resource() == "/timed")
        {
            response.timeoutAfter(std::chrono::milliseconds(300));
            response.send(Http::Code::Ok, "hello /timed");
        }
        else
            response.send(Http::Code::Ok, "hello " + req.resource());
    }
    void onDisconnection(const std::shared_ptr<Tcp::Peer>& peer) override { g_log.add(peer->getID(), 'D'); }
};

int count_fds()
{
    int n  = 0;
    DIR* d = opendir("/proc/self/fd");
    if (!d)
        return -1;
    while (readdir(d))
        ++n;
    closedir(d);
    return n;
}

void rst_close(int fd)
{
    linger l { 1, 0 };
    setsockopt(fd, SOL_SOCKET, SO_LINGER, &l, sizeof l);
    ::close(fd);
}

void read_to_eof(int fd, int ms)
{
    std::string buf;
    bool eof = false;
    while (!eof && pv::read_until(fd, buf, [](const std::string&) { return false; }, ms, &eof))
        ;
}

bool read_response(int fd)
{
    std::string buf;
    return pv::read_until(fd, buf, [](const std::string& b) {
        auto he = b.find("\r\n\r\n");
        if (he == std::string::npos)
            return false;
        auto cl = b.find("Content-Length: ");
        if (cl == std::string::npos || cl > he)
            return true;
        size_t n = static_cast<size_t>(atoll(b.c_str() + cl + 16));
        return b.size() >= he + 4 + n;
    }, 3000);
}

// n fresh connections, opened together so that they take the n lowest free descriptor numbers of the server; each
// must get exactly the answer to its own request
template <typename Check>
void probe(uint16_t port, size_t n, const std::string& request, Check exact)
{
    std::vector<int> fds;
    for (size_t i = 0; i < n; ++i)
    {
        int fd = pv::connect_loopback(port);
        if (fd >= 0)
            fds.push_back(fd);
    }
    for (int fd : fds)
        pv::send_all(fd, request);
    const auto sent_at = std::chrono::steady_clock::now();
    std::vector<std::string> answers;
    for (int fd : fds)
    {
        std::string buf;
        pv::read_until(fd, buf, [&](const std::string& b) { return exact(b) >= 0; }, 3000);
        answers.push_back(buf);
    }
    // anything that follows the answer?  All fresh connections are watched over the same span of time (one after the
    // other, the last ones would be open long enough for the idle scan to answer them 408).
    if (g_more_ms.load() > 30)
        std::this_thread::sleep_for(std::chrono::milliseconds(g_more_ms.load() - 30));
    for (size_t i = 0; i < fds.size(); ++i)
    {
        std::string more;
        pv::read_until(fds[i], more, [](const std::string& m) { return !m.empty(); }, 30);
        // On a loaded machine reading the answers can take so long that the endpoint's idle scan (600 ms) answers a fresh
        // connection 408: that is its own, not something an earlier connection left behind
        const auto open_ms = std::chrono::duration_cast<std::chrono::milliseconds>(std::chrono::steady_clock::now() - sent_at).count();
        if (open_ms >= 550 && more.compare(0, 12, "HTTP/1.1 408") == 0 && more.find("\r\n\r\n") + 4 == more.size())
            more.clear();
        if (exact(answers[i]) != 1 || !more.empty())
        {
            ++g_stale;
            if (getenv("PV_STALE_DEBUG"))
                fprintf(stderr, "stale: exact=%d answer=[%s] more=[%s]\n", exact(answers[i]), answers[i].substr(0, 200).c_str(), more.substr(0, 200).c_str());
        }
        ::close(fds[i]);
    }
}

void raw_client(char b, uint16_t port)
{
    int fd = pv::connect_loopback(port);
    if (fd < 0)
        return;
    std::string buf;
    switch (b)
    {
    case 'c': ::close(fd); break;
    case 'd': pv::send_all(fd, "data"); ::close(fd); break;
    case 'f':
        pv::send_all(fd, "data");
        pv::read_until(fd, buf, [](const std::string& x) { return x.size() >= 2; }, 3000);
        ::close(fd);
        break;
    case 'h':
        pv::send_all(fd, "data");
        ::shutdown(fd, SHUT_WR);
        read_to_eof(fd, 3000);
        ::close(fd);
        break;
    case 'r':
        pv::send_all(fd, "data");
        std::this_thread::sleep_for(std::chrono::milliseconds(20));
        rst_close(fd);
        break;
    case 'R': rst_close(fd); break;
    case 'K':
        pv::send_all(fd, "keep");
        std::this_thread::sleep_for(std::chrono::milliseconds(20));
        ::close(fd);
        break;
    case 'n':
        // keeps the worker busy for 150 ms
        pv::send_all(fd, "nap");
        pv::read_until(fd, buf, [](const std::string& x) { return x.size() >= 2; }, 3000);
        ::close(fd);
        break;
    case 'u':
        // data and close at once, while the worker is busy: both are there when it looks - one readiness event
        for (int k = 0; k < 400 && g_napping.load() == 0; ++k)
            std::this_thread::sleep_for(std::chrono::milliseconds(5));
        std::this_thread::sleep_for(std::chrono::milliseconds(20));
        pv::send_all(fd, "mute");
        ::close(fd);
        break;
    case 'v':
        for (int k = 0; k < 400 && g_napping.load() == 0; ++k)
            std::this_thread::sleep_for(std::chrono::milliseconds(5));
        std::this_thread::sleep_for(std::chrono::milliseconds(20));
        pv::send_all(fd, "mute");
        ::shutdown(fd, SHUT_WR);
        read_to_eof(fd, 1500);
        ::close(fd);
        break;
    case 'p':
        pv::send_all(fd, "big");
        std::this_thread::sleep_for(std::chrono::milliseconds(30));
        ::close(fd);
        break;
    default: ::close(fd);
    }
}

const char* kReq = "GET /x HTTP/1.1\r\nHost: a\r\n\r\n";

void http_client(char b, uint16_t port)
{
    int fd = pv::connect_loopback(port);
    if (fd < 0)
        return;
    switch (b)
    {
    case 'c': ::close(fd); break;
    case 'f':
        pv::send_all(fd, kReq);
        read_response(fd);
        ::close(fd);
        break;
    case 'k':
        pv::send_all(fd, kReq);
        read_response(fd);
        pv::send_all(fd, kReq);
        read_response(fd);
        ::close(fd);
        break;
    case 'd': pv::send_all(fd, "GET /x HTTP/1.1\r\nHo"); ::close(fd); break;
    case 'b': pv::send_all(fd, "POST /x HTTP/1.1\r\nContent-Length: 100\r\n\r\n0123456789"); ::close(fd); break;
    case 'h':
        pv::send_all(fd, kReq);
        ::shutdown(fd, SHUT_WR);
        read_to_eof(fd, 3000);
        ::close(fd);
        break;
    case 'r':
        pv::send_all(fd, kReq);
        std::this_thread::sleep_for(std::chrono::milliseconds(20));
        rst_close(fd);
        break;
    case 'i': read_to_eof(fd, 4000); ::close(fd); break;
    case 'j':
        pv::send_all(fd, "GET /x HTTP/1.1\r\nHo");
        read_to_eof(fd, 4000);
        ::close(fd);
        break;
    case 'm':
        pv::send_all(fd, kReq);
        read_response(fd);
        read_to_eof(fd, 4000);
        ::close(fd);
        break;
    case 'z':
        // ask for a slow, large answer and close at once: the answer is written to a connection whose peer has gone
        pv::send_all(fd, "GET /slowbig HTTP/1.1\r\nHost: a\r\n\r\n");
        ::close(fd);
        break;
    case 's':
    {
        int small = 4096;
        setsockopt(fd, SOL_SOCKET, SO_RCVBUF, &small, sizeof small);
        pv::send_all(fd, "GET /file HTTP/1.1\r\nHost: a\r\n\r\n");
        std::string buf;
        pv::read_until(fd, buf, [](const std::string& x) { return x.size() >= 17; }, 3000);
        std::this_thread::sleep_for(std::chrono::milliseconds(20));
        ::close(fd);
        break;
    }
    case 'L':
        pv::send_all(fd, "GET /late HTTP/1.1\r\nHost: a\r\n\r\n");
        std::this_thread::sleep_for(std::chrono::milliseconds(20));
        ::close(fd);
        break;
    case 'A':
    {
        // the download is in full swing (the worker is in its write loop) when the client resets the connection
        pv::send_all(fd, "GET /file HTTP/1.1\r\nHost: a\r\n\r\n");
        std::string buf;
        pv::read_until(fd, buf, [](const std::string& x) { return x.size() >= (2u << 20); }, 3000);
        rst_close(fd);
        break;
    }
    case 'S':
        pv::send_all(fd, "GET /file HTTP/1.1\r\nHost: a\r\n\r\n");
        read_response(fd);
        ::close(fd);
        break;
    case 't':
        pv::send_all(fd, "GET /timed HTTP/1.1\r\nHost: a\r\n\r\n");
        read_response(fd);
        ::close(fd);
        break;
    case 'G':
        // silent for 550 ms (the idle scan, 600 ms, is due by the time the worker comes back from E's nap), then a request whose
        // handler flushes: the 408 the scan has queued for this peer completes inside that flush and its continuation removes the peer
        std::this_thread::sleep_for(std::chrono::milliseconds(550));
        pv::send_all(fd, "GET /stream HTTP/1.1\r\nHost: a\r\nConnection: Keep-Alive\r\n\r\n");
        read_to_eof(fd, 1500);
        ::close(fd);
        break;
    case 'E':
        std::this_thread::sleep_for(std::chrono::milliseconds(350));
        pv::send_all(fd, "GET /nap700 HTTP/1.1\r\nHost: a\r\n\r\n");
        read_response(fd);
        ::close(fd);
        break;
    case 'P':
        pv::send_all(fd, "GET /armelse HTTP/1.1\r\nHost: a\r\n\r\n");
        read_response(fd);
        ::close(fd);
        break;
    case 'M':
    case 'O':
    case 'Y':
        pv::send_all(fd, std::string("GET /") + (b == 'M' ? "moved" : b == 'O' ? "expired" : "kept") + " HTTP/1.1\r\nHost: a\r\n\r\n");
        read_response(fd);
        ::close(fd);
        break;
    case 'w':
    {
        // a 24 MB answer is never read: the write blocks, the idle scan finds the peer again and again
        // and queues its 408 behind the stuck answer; finally the client resets
        int small = 4096;
        setsockopt(fd, SOL_SOCKET, SO_RCVBUF, &small, sizeof small);
        pv::send_all(fd, "GET /big HTTP/1.1\r\nHost: a\r\n\r\n");
        std::this_thread::sleep_for(std::chrono::milliseconds(2000));
        rst_close(fd);
        break;
    }
    default: ::close(fd);
    }
}

template <typename Client, typename Probe>
std::string drive(const char* tag, uint16_t port, int rounds, const std::string& behaviours, Client client, Probe probe_round)
{
    g_stale = 0;
    {
        std::lock_guard<std::mutex> g(g_tr_m);
        g_transports.clear();
    }
    g_more_ms = behaviours.find_first_of("LK") != std::string::npos ? 300 : 30;
    // warm-up connection, then the idle baseline
    client('c', port);
    for (int k = 0; k < 400 && g_log.count('D') < 1; ++k)
        std::this_thread::sleep_for(std::chrono::milliseconds(5));
    std::this_thread::sleep_for(std::chrono::milliseconds(30));
    g_log.clear();
    int base = count_fds();

    size_t conns = 0, tables_max = 0;
    for (int r = 0; r < rounds; ++r)
    {
        std::vector<std::thread> ts;
        for (char b : behaviours)
        {
            if (b == ',')
                continue;
            ++conns;
            ts.emplace_back([=] { client(b, port); });
        }
        for (auto& t : ts)
            t.join();
        // every connection of the round has been released: the next ones get the same descriptor numbers
        for (int k = 0; k < 800 && g_log.count('D') < conns; ++k)
            std::this_thread::sleep_for(std::chrono::milliseconds(5));
        // every client of the round is gone: no peer, no write queue, no timer may be left in the workers' tables
        // (read before the fresh connections take the same descriptor numbers and release them again)
        if (g_log.count('D') >= conns)
        {
            std::this_thread::sleep_for(std::chrono::milliseconds(behaviours.find_first_of("tMOYP") != std::string::npos ? 750 : 10));
            tables_max = std::max(tables_max, table_entries());
        }
        size_t n = std::min<size_t>(ts.size(), 8);
        probe_round(n);
        conns += n;
    }
    for (int k = 0; k < 800 && g_log.count('D') < conns; ++k)
        std::this_thread::sleep_for(std::chrono::milliseconds(5));
    // disarmed response timers (300 ms) have fired by then
    std::this_thread::sleep_for(std::chrono::milliseconds(behaviours.find_first_of("tMOYP") != std::string::npos ? 750 : 80));
    for (int k = 0; k < 400 && g_late_running.load() > 0; ++k)
        std::this_thread::sleep_for(std::chrono::milliseconds(5));
    int end = count_fds();

    std::vector<std::string> logs;
    int after;
    {
        std::lock_guard<std::mutex> g(g_log.m);
        for (auto& kv : g_log.per)
            logs.push_back(kv.second);
        after = g_log.after_disc;
    }
    std::sort(logs.begin(), logs.end());
    std::ostringstream os;
    os << tag << " conns=" << conns << " logs=";
    for (size_t i = 0; i < logs.size(); ++i)
        os << (i ? "," : "") << logs[i];
    if (logs.empty())
        os << "-";
    os << " after_disc=" << after << " fd_delta=" << (end - base) << " stale=" << g_stale.load() << " tables=" << std::max(tables_max, table_entries());
    return os.str();
}
} // namespace

static std::string handle(const std::string& line)
{
    auto t = pv::split(line);
    if (t.size() < 4)
        return "BADCASE";
    int workers = atoi(t[1].c_str());
    int rounds  = atoi(t[2].c_str());
    g_log.clear();
    if (t[0] == "T")
    {
        Tcp::Listener listener;
        listener.init(static_cast<size_t>(workers), Flags<Tcp::Options>(Tcp::Options::ReuseAddr));
        listener.setHandler(std::make_shared<RawHandler>());
        listener.bind(Address("127.0.0.1", Port(0)));
        listener.runThreaded();
        uint16_t port   = listener.getPort();
        std::string out = drive("T", port, rounds, t[3], raw_client, [port](size_t n) {
            probe(port, n, "data", [](const std::string& b) { return b == "ok" ? 1 : (b.size() >= 2 ? 0 : -1); });
        });
        listener.shutdown();
        return out;
    }
    Http::Endpoint ep(Address("127.0.0.1", Port(0)));
    ep.init(Http::Endpoint::options()
                .threads(workers)
                .flags(Flags<Tcp::Options>(Tcp::Options::ReuseAddr))
                .headerTimeout(std::chrono::milliseconds(600))
                .bodyTimeout(std::chrono::milliseconds(600)));
    ep.setHandler(std::make_shared<HttpHandler>());
    ep.serveThreaded();
    if (t[3].find_first_of("sSA") != std::string::npos)
    {
        char name[] = "/tmp/pv_lifecycle_XXXXXX";
        int ffd     = mkstemp(name);
        std::string block(1u << 20, 'f');
        for (int i = 0; i < 16; ++i)
            if (::write(ffd, block.data(), block.size()) != static_cast<ssize_t>(block.size()))
                return "BADCASE cannot write the file";
        ::close(ffd);
        g_file = name;
    }
    uint16_t port   = ep.getPort();
    std::string out = drive("H", port, rounds, t[3], http_client, [port](size_t n) {
        probe(port, n, kReq, [](const std::string& b) {
            static const std::string want_body = "hello /x";
            auto he = b.find("\r\n\r\n");
            if (he == std::string::npos)
                return b.size() > 4096 || (!b.empty() && b.compare(0, std::min<size_t>(b.size(), 12), std::string("HTTP/1.1 200").substr(0, std::min<size_t>(b.size(), 12))) != 0) ? 0 : -1;
            if (b.compare(0, 12, "HTTP/1.1 200") != 0)
                return 0;
            if (b.size() < he + 4 + want_body.size())
                return -1;
            return b.substr(he + 4) == want_body ? 1 : 0;
        });
    });
    ep.shutdown();
    if (!g_file.empty())
        ::unlink(g_file.c_str());
    return out;
}

#include <execinfo.h>
static void sigpipe_bt(int)
{
    // diagnosis only (PV_SIGPIPE_BT=1): where a write to a broken connection raised SIGPIPE
    void* frames[40];
    int n = backtrace(frames, 40);
    backtrace_symbols_fd(frames, n, 2);
    _exit(141);
}

int main()
{
    if (getenv("PV_SIGPIPE_BT"))
        signal(SIGPIPE, sigpipe_bt);
    return pv::run_cases(handle);
}
