(* C04 — successive messages on a persistent connection are parsed independently. *)
From Coq Require Import Ascii String List NArith Arith.
Require Import Bytes Restartable ParserModel ParserLemmas HandlerModel HandlerLemmas.
Import ListNotations.

(* reset (as performed after a handed-over request, an error answer or a refused read) leaves
   every field a later run can read exactly as in a fresh parser — whatever state the parser
   was in (mid-body, mid-chunk, mid-headers) *)
Theorem C04_reset_is_init : forall st, observe (reset_request st) = observe pstate_init.
Proof. intros st. rewrite reset_is_init. reflexivity. Qed.
Print Assumptions C04_reset_is_init.

(* after any read that did not end in "wait", the connection's parser is a fresh parser *)
Theorem C04_completed_message_leaves_fresh_parser :
  forall typed_other set_cookie maxsz st seg,
    match on_input typed_other set_cookie maxsz st seg with
    | (AWait, _) => True
    | (_, st') => st' = pstate_init
    end.
Proof. exact on_input_total. Qed.
Print Assumptions C04_completed_message_leaves_fresh_parser.

(* any sequence of completed messages (handed to the handler, or answered with an error incl.
   413 in mid-body), each in any segmentation, is handled exactly as each message would be on a
   fresh connection *)
Theorem C04_independent :
  forall typed_other set_cookie maxsz (msgs : list (list bytes)),
    Forall (completes typed_other set_cookie maxsz) msgs ->
    fst (connection typed_other set_cookie maxsz pstate_init (concat msgs))
    = concat (map (fun reads => fst (connection typed_other set_cookie maxsz pstate_init reads)) msgs)
    /\ snd (connection typed_other set_cookie maxsz pstate_init (concat msgs)) = pstate_init.
Proof. exact connection_messages. Qed.
Print Assumptions C04_independent.
