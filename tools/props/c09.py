"""C09 — multi-threaded serving is race-free and shuts down cleanly."""
import re
import pv
from diffcheck import Spec, run_spec

HARNESSES = [("h_mt", "tsan", ())]


class C09(Spec):
    pid = "C09"
    area = "dispatch"
    harness = "h_mt"
    variant = "tsan"
    shard = 1
    timeout = 900
    SAN_LOG = pv.ROOT + "/replays/C09-tsan"
    env = {"PV_CASE_TIMEOUT": "90", "TSAN_OPTIONS": "halt_on_error=1:exitcode=97:log_path=" + SAN_LOG, "PV_SAN_LOG": SAN_LOG}
    rule = ("Http::Endpoint with 1-6 worker threads serving one shared Rest::Router (tables for GET/POST/PUT/DELETE), built "
            "with -fsanitize=thread; 1-12 client threads each keep one connection and send 5-300 numbered requests rotating "
            "over the four tabled methods and PATCH/OPTIONS (no table); every response must carry its own request's method and "
            "number (404/405 for the table-less methods); shutdown() is called after the load or 0-200 ms into it and must "
            "return with every framework thread gone; shutdown() right after serveThreaded() (I cases: the workers may not have entered their loops) with the threads counted BEFORE the endpoint is destroyed; the blocking serve() on a thread of its own, polled with isBound()/getPort() from another thread (B cases); Endpoint::requestLoad asked 200-300 times in a row while four clients keep the workers busy (R cases). A ThreadSanitizer report ends the case as CRASH exit=97. "
            "non-trivial = more than one worker and more than one client; distinct by case line")
    assumptions = ["the interleavings explored are those the OS scheduler produces on this machine (ThreadSanitizer observes, it does not enumerate)",
                   "ThreadSanitizer sees races only on executed paths and does not model std::atomic fences of every kind (false negatives possible)",
                   "termination of shutdown() is observed within the case time-out, not proved"]

    def same(self, case, impl, model):
        if "ok=*" in model:
            return re.sub(r"ok=\d+", "ok=*", impl) == model
        return impl == model

    def corpus(self):
        return ["M 3 6 60 -1", "M 2 4 200 30", "M 1 2 20 0", "M 4 8 100 50", "I 1", "I 2", "I 4", "I 8", "I 3", "I 6", "B 1", "B 2", "B 4", "B 2", "B 1", "R 4 300", "R 2 300", "R 1 200", "R2 1 200", "R2 3 200"]

    def gen(self, rng, tier):
        cases = []
        n = 12 if tier == "quick" else 150
        for _ in range(n):
            shut = rng.choice([-1, -1, 0, 5, 20, 50, 100, 200])
            cases.append("M %d %d %d %d" % (rng.randint(1, 6), rng.randint(1, 12), rng.choice([5, 20, 60, 150, 300]), shut))
        return cases

    def oracle(self, case, impl):
        if impl.startswith("CRASH exit=97"):
            return "ThreadSanitizer reported a data race inside the framework on %s (%s)" % (case, " ".join(impl.split()[2:]) or "no summary")
        if impl.startswith("HANG"):
            return "shutdown() or the load did not finish on %s (%s)" % (case, impl)
        if impl.startswith("CRASH"):
            return "multi-threaded harness %s on %s" % (impl, case)
        t = case.split()
        f = dict(x.split("=") for x in impl.split()[1:])
        if t[0] == "R2":
            if f["lost"] != "0" or f["both"] != t[2]:
                return "two Endpoint::requestLoad in flight at a time, %s rounds: both answered in %s, not in %s (%s)" % (t[2], f["both"], f["lost"], case)
            return None
        if t[0] == "R":
            if f["lost"] != "0" or f["got"] != t[2]:
                return "Endpoint::requestLoad asked %s times in a row under load: %s answered, %s never answered (%s)" % (t[2], f["got"], f["lost"], case)
            return None
        if t[0] == "B":
            if impl != "B bound=1 answered=1 returned=1":
                return "blocking serve() on its own thread, polled with isBound()/getPort() from another: %s (%s)" % (impl, case)
            return None
        if t[0] == "I":
            if f["threads_left"] != "0":
                return ("shutdown() right after serveThreaded() with %s worker(s): %s framework thread(s) were still alive 3 s after it had "
                        "returned (before the endpoint was destroyed)" % (t[1], f["threads_left"]))
            return None
        if f["bad"] != "0":
            return "%s responses did not carry their own request's method and number (%s)" % (f["bad"], case)
        if f["short"] != "0":
            return "%s requests were left unanswered although the server was up (%s)" % (f["short"], case)
        if int(t[4]) < 0 and int(f["ok"]) != int(t[2]) * int(t[3]):
            return "%s of %d requests were answered correctly (%s)" % (f["ok"], int(t[2]) * int(t[3]), case)
        if f["shutdown"] != "1" or f["threads_left"] != "0":
            return "after shutdown() %s framework thread(s) were still alive (%s)" % (f["threads_left"], case)
        return None

    def nontrivial(self, case, impl):
        t = case.split()
        return int(t[1]) > 1 and (t[0] in ("I", "B", "R", "R2") or int(t[2]) > 1)

    def kind(self, case, impl):
        t = case.split()
        if t[0] == "I":
            return "w%s-shutdown-at-once" % t[1]
        if t[0] == "B":
            return "w%s-blocking-serve-polled" % t[1]
        if t[0] in ("R", "R2"):
            return "w%s-load-asked-%s" % (t[1], "repeatedly" if t[0] == "R" else "twice-at-once")
        return "w%s-%s" % (t[1], "shutdown-under-load" if int(t[4]) >= 0 else "full-load")


def run(rep, tier, seed):
    import glob, os
    for f in glob.glob(C09.SAN_LOG + ".*"):      # sanitizer reports of earlier runs
        try:
            os.remove(f)
        except OSError:
            pass
    os.makedirs(os.path.dirname(C09.SAN_LOG), exist_ok=True)
    return run_spec(C09(), rep, tier, seed)


def replay(obj):
    s = C09()
    case = obj["case"]
    exe = pv.build_harness(s.harness, s.variant)
    drv = pv.build_model_driver()
    i, _ = pv.run_parallel([exe], [case], env=s.env)
    m, _ = pv.run_parallel([drv, s.area], [case])
    print("case :", case); print("impl :", i[0]); print("model:", m[0])
    w = s.oracle(case, i[0])
    print("oracle:", w or "no data race reported, every response matches its request, shutdown returned and all threads ended")
    return 1 if w else 0
