#!/usr/bin/env python3
"""setup_cmd: build the whole framework offline from files on disk: the Coq development
(full .vo build), the extracted model driver, /repo's working tree as static libraries and
every harness."""
import os
import sys
sys.path.insert(0, os.path.dirname(os.path.abspath(__file__)))
import pv

def main():
    ok, out = pv.gen_tables()
    if not ok:
        print(out); return 1
    pv.coq_makefile()
    rc, out, cmd, wall = pv.coq_build(["all"], timeout=3000)
    print("coq build rc=%d in %.0fs" % (rc, wall))
    if rc != 0:
        print(out[-4000:]); return 1
    probs = pv.coq_hygiene()
    if probs:
        print("\n".join(probs)); return 1
    print("driver:", pv.build_model_driver())
    import importlib
    pdir = os.path.join(pv.ROOT, "tools", "props")
    for f in sorted(os.listdir(pdir)):
        if f.startswith("c") and f.endswith(".py"):
            mod = importlib.import_module("props." + f[:-3])
            for (h, variant, flags) in getattr(mod, "HARNESSES", []):
                print("harness:", pv.build_harness(h, variant, extra_flags=flags))
    return 0

if __name__ == "__main__":
    sys.exit(main())
