(* The typed header collection of the parser model (Header::Collection::headers, filled by HeadersStep through
   Collection::add = insert-if-absent): whatever sequence of effects the parse produced - any message, any segmentation,
   re-applied blocks included - typed_get returns the value of the FIRST AddTyped of that registry index. *)
From Coq Require Import Ascii String List NArith Bool Arith Lia.
Require Import Bytes Restartable ParserModel ParserLemmas.
Import ListNotations.

Fixpoint first_typed (i : N) (s : list eff) : option bytes :=
  match s with
  | [] => None
  | AddTyped j v :: r => if N.eqb j i then Some v else first_typed i r
  | _ :: r => first_typed i r
  end.

Definition find_id (i : N) (l : list (N * bytes)) : option (N * bytes) := find (fun p : N * bytes => N.eqb (fst p) i) l.

Lemma find_id_app i l x : find_id i (l ++ [x]) = match find_id i l with Some p => Some p | None => if N.eqb (fst x) i then Some x else None end.
Proof.
  unfold find_id. induction l as [|a l IH]; cbn [app find]; [destruct (N.eqb (fst x) i); reflexivity|].
  destruct (N.eqb (fst a) i); [reflexivity|exact IH].
Qed.

Lemma cmem_find i v l : cmem _ same_id (i, v) l = true -> find_id i l <> None.
Proof.
  unfold cmem, find_id. induction l as [|a l IH]; cbn [existsb find]; [discriminate|].
  intros H. apply orb_true_iff in H. destruct H as [H|H].
  - unfold same_id in H. cbn [fst] in H. apply N.eqb_eq in H. rewrite <- H, N.eqb_refl. discriminate.
  - destruct (N.eqb (fst a) i); [discriminate|apply IH; exact H].
Qed.

Lemma cmem_other i j v l : N.eqb j i = false -> find_id i (if cmem _ same_id (j, v) l then l else l ++ [(j, v)]) = find_id i l.
Proof.
  intros Hji. destruct (cmem _ same_id (j, v) l); [reflexivity|].
  rewrite find_id_app. cbn [fst]. rewrite Hji. destruct (find_id i l); reflexivity.
Qed.

Lemma typed_fold i : forall (s : list eff) (acc : list (N * bytes)),
  option_map snd (find_id i (capply _ same_id acc (map v_typed s)))
  = match find_id i acc with Some p => Some (snd p) | None => first_typed i s end.
Proof.
  induction s as [|e s IH]; intros acc; [cbn [map capply fold_left first_typed]; unfold capply; cbn [fold_left]; destruct (find_id i acc); reflexivity|].
  unfold capply in *. cbn [map fold_left]. rewrite IH. clear IH.
  destruct e as [n|b|k v|n|z| |k v|j v|k v]; cbn [v_typed capply1 first_typed]; try reflexivity.
  destruct (N.eqb j i) eqn:Hji.
  - apply N.eqb_eq in Hji. subst j.
    destruct (cmem _ same_id (i, v) acc) eqn:Hm.
    + pose proof (cmem_find i v acc Hm) as Hne. destruct (find_id i acc); [reflexivity|congruence].
    + rewrite find_id_app. cbn [fst snd]. rewrite N.eqb_refl. destruct (find_id i acc); reflexivity.
  - rewrite (cmem_other i j v acc Hji). reflexivity.
Qed.

Theorem typed_get_first (s : list eff) (i : N) : typed_get (apply msg_init s) (Some i) = first_typed i s.
Proof.
  unfold typed_get. rewrite apply_typed_only_effs. cbn [m_typed msg_init].
  pose proof (typed_fold i s []) as H. cbn [find_id find] in H. unfold find_id in H.
  destruct (find (fun p : N * bytes => N.eqb (fst p) i) (capply _ same_id [] (map v_typed s))) as [p|]; cbn [option_map] in H; exact H.
Qed.
