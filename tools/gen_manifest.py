#!/usr/bin/env python3
"""Writes MANIFEST.json from the table below (kept in one place so it stays valid)."""
import json
import os
ROOT = os.path.dirname(os.path.dirname(os.path.abspath(__file__)))

CHECKS = {
 "C20": dict(
    text="Full. Theorems C20_roundtrip (decode (encode bs) = bs for every byte string), C20_canonical (encode = independent RFC 4648 bit-regrouping spec), C20_encoded_size, C20_basic / C20_basic_colon_rejected (Authorization Basic accessors), C20_decode_safe (any text: error or bounded output, the size walk never passes the terminator) proved in Coq about an executable model of base64.cc and the Authorization accessors; the model is tied to /repo by running the extracted model and the real classes (ASan+UBSan build of the working tree) on the same inputs and diffing.",
    note="Closed under the global context (no axioms). Trusted: Coq kernel + vm_compute (finite sweeps over 64/256/65536 values lifted by lemmas), ExtrOcamlBasic extraction, OCaml driver, harness/h_base64.cc, generator; std::string NUL terminator at index size().",
    technique="Coq proof (round-trip by induction on triplets + finite sweeps) + extracted-model/implementation differential correspondence",
    design="§2 C20"),
}

ALL = ["C%02d" % i for i in range(1, 21)]
NOT_YET = "check not built yet in this revision (design in DESIGN.md §2); will be claimed when its model, theorems and correspondence are committed"

def main():
    checks = []
    for pid in ALL:
        if pid not in CHECKS:
            continue
        c = CHECKS[pid]
        checks.append({
            "property_id": pid,
            "quick_cmd": "python3 tools/check.py --property %s --tier quick" % pid,
            "thorough_cmd": "python3 tools/check.py --property %s --tier thorough" % pid,
            "evidence_file": "/verif/evidence/%s.json" % pid,
            "replay_cmd_template": "python3 tools/check.py --property %s --replay {path}" % pid,
            "engine": "check",
            "level_claimed": {"category": "proof", "text": c["text"], "design_ref": c["design"]},
            "level_note": c["note"],
            "technique": c["technique"],
        })
    m = {
        "version": 1,
        "setup_cmd": "python3 tools/setup.py",
        "hooks": {
            "guard": "PISTACHE_VERIF",
            "enable": "checks compile /repo/src/**/*.cc themselves with -DPISTACHE_VERIF (tools/pv.py build_repo_lib); the guard only adds yield points / socket-call indirections",
            "baseline_off_cmd": "cmake --build /repo/_build && ctest --test-dir /repo/_build -j8 --timeout 900",
            "source_commits": HOOK_COMMITS,
            "add_only": True,
        },
        "engines": [
            {"name": "coq", "path": "coq/", "serves_properties": sorted(CHECKS), "kind_free_text": "Coq 8.16.1 development: executable Gallina models, lemmas, Properties_Cnn.v theorem files"},
            {"name": "modelrun", "path": "ocaml/", "serves_properties": sorted(CHECKS), "kind_free_text": "models extracted to OCaml (ExtrOcamlBasic only) + driver reading case lines"},
            {"name": "harness", "path": "harness/", "serves_properties": sorted(CHECKS), "kind_free_text": "C++ drivers compiled against /repo's current working tree (hooks on, sanitizers where relevant)"},
            {"name": "check", "path": "tools/check.py", "serves_properties": sorted(CHECKS), "kind_free_text": "orchestrator: re-checks proofs, builds, generates cases, diffs model vs implementation, evaluates the property oracle, matches known findings, writes evidence"},
        ],
        "checks": checks,
        "notes": "See DESIGN.md. Known findings: known_findings.json. Seeded breaking changes: seeded/.",
        "not_applicable": [{"property_id": p, "reason": NOT_YET} for p in ALL if p not in CHECKS],
    }
    json.dump(m, open(os.path.join(ROOT, "MANIFEST.json"), "w"), indent=1)

HOOK_COMMITS = []

if __name__ == "__main__":
    main()
