From Coq Require Import Ascii String List NArith ZArith Bool Arith Lia.
Require Import Bytes BytesLemmas NumParse Decimal NetModel.
Import ListNotations.

Definition lacks (c : ascii) (s : bytes) : Prop := Forall (fun x => ascii_eqb x c = false) s.

Lemma find_from_none c : forall s i, lacks c s -> find_from c s i = None.
Proof. induction s as [|x s IH]; intros i H; [reflexivity|]. inversion H; subst. cbn. rewrite H2. apply IH. exact H3. Qed.

Lemma find_from_app c : forall h r i, lacks c h -> find_from c (h ++ c :: r) i = Some (i + length h).
Proof.
  induction h as [|x h IH]; intros r i H; cbn.
  - rewrite ascii_eqb_refl. f_equal. lia.
  - inversion H; subst. rewrite H2. rewrite IH by exact H3. f_equal. lia.
Qed.

Lemma lacks_app c a b : lacks c a -> lacks c b -> lacks c (a ++ b).
Proof. apply Forall_app_intro || (intros; apply Forall_app; split; assumption). Qed.

Definition plain (s : bytes) : Prop := lacks ":" s /\ lacks "[" s /\ lacks "]" s.
Definition nobracket (s : bytes) : Prop := lacks "[" s /\ lacks "]" s.

Lemma digits_lack c s : all_digits s -> is_digit c = false -> lacks c s.
Proof.
  intros H Hc. induction H as [|x s [v Hv] _ IH]; constructor; [|exact IH].
  destruct (ascii_eqb x c) eqn:E; [|reflexivity]. apply ascii_eqb_eq in E. subst x.
  unfold digit_val in Hv. rewrite Hc in Hv. cbn in Hv. discriminate.
Qed.

Lemma print_dec_plain n : plain (print_dec n) /\ lacks c_nul (print_dec n).
Proof.
  destruct (print_dec_spec n) as [_ [Ha _]]. repeat split; apply digits_lack; try exact Ha; reflexivity.
Qed.

Lemma until_nul_id s : lacks c_nul s -> until_nul s = s.
Proof. induction 1 as [|x s Hx _ IH]; cbn; [reflexivity|]. rewrite Hx, IH. reflexivity. Qed.

Lemma all_digits_forallb s : all_digits s -> forallb is_digit s = true.
Proof.
  induction 1 as [|x s [v Hv] _ IH]; [reflexivity|]. cbn [forallb]. rewrite IH, Bool.andb_true_r.
  unfold digit_val in Hv. destruct (is_digit x); [reflexivity|]. cbn in Hv. discriminate.
Qed.

Theorem port_roundtrip p : (p <= 65535)%N -> port_parse (print_dec p) = Some p.
Proof.
  intros Hp. unfold port_parse. destruct (print_dec_spec p) as [_ [Ha _]].
  rewrite (all_digits_forallb _ Ha). cbn [negb]. rewrite until_nul_id by apply print_dec_plain.
  rewrite strtol_print_dec by (unfold LONG_MAX; lia).
  destruct (Z.ltb_spec (Z.of_N p) 0); [lia|]. destruct (Z.ltb_spec 65535 (Z.of_N p)); [lia|].
  cbn. f_equal. lia.
Qed.

Theorem port_in_range s v : port_parse s = Some v -> (v <= 65535)%N.
Proof.
  unfold port_parse. destruct (negb (forallb is_digit s)); [discriminate|].
  destruct (strtol_all 10 (until_nul s)) as [z|]; [|discriminate].
  destruct (Z.ltb_spec z 0); [discriminate|]. destruct (Z.ltb_spec 65535 z); [discriminate|].
  cbn. intros Hv. inversion Hv. lia.
Qed.

(* only digits: no sign, no blank, nothing after the number *)
Theorem port_only_digits s v : port_parse s = Some v -> forallb is_digit s = true.
Proof. unfold port_parse. destruct (forallb is_digit s); [reflexivity|discriminate]. Qed.

Theorem port_with_other_byte_rejected a c b : is_digit c = false -> port_parse (a ++ c :: b) = None.
Proof.
  intros Hc. unfold port_parse. rewrite forallb_app. cbn [forallb]. rewrite Hc. cbn [andb]. rewrite Bool.andb_false_r. reflexivity.
Qed.

(* ---------- splitting ---------- *)
Lemma parser_v4_port h port : plain h -> nobracket port -> port <> [] ->
  address_parser (h ++ ":"%char :: port) = Some (mkParsed V4 h port true).
Proof.
  intros [Hc [Ho Hcl]] [Hpo Hpc] Hne. unfold address_parser, find_char.
  rewrite (find_from_none "]") by (apply lacks_app; [exact Hcl|constructor; [reflexivity|assumption]]).
  rewrite (find_from_none "[") by (apply lacks_app; [exact Ho|constructor; [reflexivity|assumption]]).
  rewrite find_from_app by exact Hc. cbn [plus].
  replace (length h + 1) with (length (h ++ [":"%char])) by (rewrite app_length; cbn; lia).
  replace (h ++ ":"%char :: port) with ((h ++ [":"%char]) ++ port) by (rewrite <- app_assoc; reflexivity).
  rewrite skipn_app, Nat.sub_diag, skipn_all. cbn [app skipn].
  destruct port; [congruence|]. rewrite <- app_assoc. cbn [app].
  rewrite firstn_app, Nat.sub_diag, firstn_all. cbn. rewrite app_nil_r. reflexivity.
Qed.

Lemma parser_v4_noport h : plain h -> address_parser h = Some (mkParsed V4 h [] false).
Proof.
  intros [Hc [Ho Hcl]]. unfold address_parser, find_char.
  rewrite (find_from_none "]") by exact Hcl. rewrite (find_from_none "[") by exact Ho. rewrite (find_from_none ":") by exact Hc.
  reflexivity.
Qed.

Lemma parser_v4_empty_port h : plain h -> address_parser (h ++ [":"%char]) = None.
Proof.
  intros [Hc [Ho Hcl]]. unfold address_parser, find_char.
  rewrite (find_from_none "]") by (apply lacks_app; [exact Hcl|constructor; [reflexivity|constructor]]).
  rewrite (find_from_none "[") by (apply lacks_app; [exact Ho|constructor; [reflexivity|constructor]]).
  rewrite find_from_app by exact Hc. cbn [plus].
  replace (length h + 1) with (length (h ++ [":"%char])) by (rewrite app_length; cbn; lia).
  rewrite skipn_all. reflexivity.
Qed.

(* what the parser does with "[" h6 "]" rest, h6 non-empty and free of brackets *)
Lemma parser_bracketed h6 rest : nobracket h6 -> h6 <> [] ->
  address_parser ("["%char :: h6 ++ "]"%char :: rest)
  = match rest with
    | [] => Some (mkParsed V6 ("["%char :: h6 ++ ["]"%char]) [] false)
    | c :: port => if ascii_eqb c ":" then match port with [] => None | _ => Some (mkParsed V6 ("["%char :: h6 ++ ["]"%char]) port true) end
                   else None
    end.
Proof.
  intros [Ho Hc] Hne. unfold address_parser, find_char.
  cbn [find_from]. replace (ascii_eqb "[" "]") with false by reflexivity.
  replace (ascii_eqb "[" "[") with true by reflexivity.
  rewrite find_from_app by exact Hc.
  destruct (Nat.ltb_spec (1 + length h6) 2) as [H|_]; [destruct h6; [congruence|cbn in H; lia]|].
  replace (1 + length h6 + 1) with (S (length (h6 ++ ["]"%char]))) by (rewrite app_length; cbn; lia).
  cbn [skipn firstn].
  replace (h6 ++ "]"%char :: rest) with ((h6 ++ ["]"%char]) ++ rest) by (rewrite <- app_assoc; reflexivity).
  rewrite skipn_app, Nat.sub_diag, skipn_all, firstn_app, Nat.sub_diag, firstn_all. cbn [app skipn firstn]. rewrite app_nil_r.
  destruct rest as [|c port]; [reflexivity|]. destruct (ascii_eqb c ":"); [|reflexivity]. destruct port; reflexivity.
Qed.

Lemma parser_v6_port h6 port : nobracket h6 -> h6 <> [] -> port <> [] ->
  address_parser ("["%char :: h6 ++ "]"%char :: ":"%char :: port)
  = Some (mkParsed V6 ("["%char :: h6 ++ ["]"%char]) port true).
Proof.
  intros Hn Hne Hp. rewrite parser_bracketed by assumption. replace (ascii_eqb ":" ":") with true by reflexivity.
  destruct port; [congruence|reflexivity].
Qed.

(* text in front of the opening bracket, or behind the closing one without a colon: rejected *)
Lemma find_from_ge c : forall l i k, find_from c l i = Some k -> i <= k.
Proof.
  induction l as [|x l IH]; intros i k H; cbn in H; [discriminate|].
  destruct (ascii_eqb x c); [inversion H; lia|]. apply IH in H. lia.
Qed.
Lemma find_from_present c : forall pre rest i, exists k, find_from c (pre ++ c :: rest) i = Some k.
Proof.
  induction pre as [|x pre IH]; intros rest i; cbn.
  - rewrite ascii_eqb_refl. eexists. reflexivity.
  - destruct (ascii_eqb x c); [eexists; reflexivity|]. apply IH.
Qed.

Lemma parser_prefix_rejected c pre rest : ascii_eqb c "[" = false -> address_parser (c :: pre ++ "["%char :: rest) = None.
Proof.
  intros Hc. unfold address_parser, find_char. cbn [find_from]. rewrite Hc.
  destruct (find_from_present "[" pre rest 1) as [k Hk]. rewrite Hk.
  pose proof (find_from_ge _ _ _ _ Hk) as Hge. destruct k as [|n]; [lia|].
  destruct (ascii_eqb c "]"); [|destruct (find_from "]" (pre ++ "["%char :: rest) 1)]; reflexivity.
Qed.

Lemma parser_junk_after_bracket h6 c rest : nobracket h6 -> h6 <> [] -> ascii_eqb c ":" = false ->
  address_parser ("["%char :: h6 ++ "]"%char :: c :: rest) = None.
Proof. intros Hn Hne Hc. rewrite parser_bracketed by assumption. rewrite Hc. reflexivity. Qed.

Lemma parser_empty_brackets rest : address_parser ("["%char :: "]"%char :: rest) = None.
Proof. reflexivity. Qed.

(* ---------- Address::init and printing ---------- *)
Section NetThms.
  Variable A4 A6 : Type.
  Variable resolve4 : bytes -> option A4.
  Variable pton6 : bytes -> option A6.
  Variable ntop4 : A4 -> bytes.
  Variable ntop6 : A6 -> bytes.
  Notation address_init := (address_init_core A4 A6 resolve4 pton6).
  Notation print_address := (print_address A4 A6 ntop4 ntop6).

  Definition not_alias (h : bytes) : Prop :=
    bytes_eqb h (list_of_string "*") = false /\ bytes_eqb h (list_of_string "localhost") = false.

  Theorem init_v4_port h q p : plain h -> not_alias h -> resolve4 h = Some q -> (p <= 65535)%N ->
    address_init (h ++ ":"%char :: print_dec p) = Some (mkAddr A4 A6 (IP4 A4 A6 q) p).
  Proof.
    intros Hp [Ha1 Ha2] Hr Hle. unfold NetModel.address_init_core.
    destruct (print_dec_plain p) as [[_ [Hb1 Hb2]] _]. destruct (print_dec_spec p) as [Hne _].
    rewrite (parser_v4_port h (print_dec p) Hp (conj Hb1 Hb2) Hne). cbn [p_port p_colon p_fam p_host].
    destruct (print_dec p) eqn:E; [congruence|]. rewrite <- E. rewrite (port_roundtrip p Hle).
    rewrite Ha1, Ha2, Hr. reflexivity.
  Qed.

  Theorem init_v4_default_port h q : plain h -> not_alias h -> resolve4 h = Some q ->
    address_init h = Some (mkAddr A4 A6 (IP4 A4 A6 q) 80).
  Proof.
    intros Hp [Ha1 Ha2] Hr. unfold NetModel.address_init_core. rewrite (parser_v4_noport h Hp).
    cbn [p_port p_colon p_fam p_host]. rewrite Ha1, Ha2, Hr. reflexivity.
  Qed.

  Theorem init_alias_star z : resolve4 (list_of_string "0.0.0.0") = Some z ->
    address_init (list_of_string "*") = Some (mkAddr A4 A6 (IP4 A4 A6 z) 80).
  Proof. intros H. unfold NetModel.address_init_core. cbn. cbn in H. rewrite H. reflexivity. Qed.

  Theorem init_alias_localhost z : resolve4 (list_of_string "127.0.0.1") = Some z ->
    address_init (list_of_string "localhost") = Some (mkAddr A4 A6 (IP4 A4 A6 z) 80).
  Proof. intros H. unfold NetModel.address_init_core. cbn. cbn in H. rewrite H. reflexivity. Qed.

  Theorem init_v6_port h6 q p : nobracket h6 -> h6 <> [] -> pton6 h6 = Some q -> (p <= 65535)%N ->
    address_init ("["%char :: h6 ++ "]"%char :: ":"%char :: print_dec p) = Some (mkAddr A4 A6 (IP6 A4 A6 q) p).
  Proof.
    intros Hn Hne6 Hr Hle. unfold NetModel.address_init_core.
    destruct (print_dec_spec p) as [Hne _].
    rewrite (parser_v6_port h6 (print_dec p) Hn Hne6 Hne). cbn [p_port p_colon p_fam p_host].
    destruct (print_dec p) eqn:E; [congruence|]. rewrite <- E. rewrite (port_roundtrip p Hle).
    unfold substr. cbn [length skipn]. rewrite app_length. cbn [length].
    replace (S (length h6 + 1) - 2) with (length h6) by lia.
    rewrite firstn_app, Nat.sub_diag, firstn_all. cbn [firstn]. rewrite app_nil_r, Hr. reflexivity.
  Qed.

  Theorem init_empty_port_rejected h : plain h -> address_init (h ++ [":"%char]) = None.
  Proof. intros Hp. unfold NetModel.address_init_core. rewrite (parser_v4_empty_port h Hp). reflexivity. Qed.

  Theorem init_prefix_rejected c pre rest : ascii_eqb c "[" = false -> address_init (c :: pre ++ "["%char :: rest) = None.
  Proof. intros H. unfold NetModel.address_init_core. rewrite (parser_prefix_rejected c pre rest H). reflexivity. Qed.

  Theorem init_junk_after_bracket_rejected h6 c rest : nobracket h6 -> h6 <> [] -> ascii_eqb c ":" = false ->
    address_init ("["%char :: h6 ++ "]"%char :: c :: rest) = None.
  Proof. intros Hn Hne Hc. unfold NetModel.address_init_core. rewrite (parser_junk_after_bracket h6 c rest Hn Hne Hc). reflexivity. Qed.

  Theorem init_empty_brackets_rejected rest : address_init ("["%char :: "]"%char :: rest) = None.
  Proof. reflexivity. Qed.

  (* a port part with anything but digits: rejected, whatever the host *)
  Theorem init_v4_bad_port_rejected h a c b : plain h -> is_digit c = false -> nobracket (a ++ c :: b) ->
    address_init (h ++ ":"%char :: a ++ c :: b) = None.
  Proof.
    intros Hp Hc Hnb. unfold NetModel.address_init_core.
    assert (Hne : a ++ c :: b <> []) by (destruct a; discriminate).
    rewrite (parser_v4_port h (a ++ c :: b) Hp Hnb Hne). cbn [p_port p_colon p_fam p_host].
    destruct (a ++ c :: b) eqn:E; [congruence|]. rewrite <- E. rewrite (port_with_other_byte_rejected a c b Hc). reflexivity.
  Qed.

  (* printing gives back an equivalent text: it parses to the same address *)
  Theorem print_parse_v4 q p : plain (ntop4 q) -> not_alias (ntop4 q) -> resolve4 (ntop4 q) = Some q ->
    (p <= 65535)%N ->
    address_init (print_address (mkAddr A4 A6 (IP4 A4 A6 q) p)) = Some (mkAddr A4 A6 (IP4 A4 A6 q) p).
  Proof. intros. cbn [NetModel.print_address a_ip a_port]. apply init_v4_port; assumption. Qed.

  Theorem print_parse_v6 q p : nobracket (ntop6 q) -> ntop6 q <> [] -> pton6 (ntop6 q) = Some q -> (p <= 65535)%N ->
    address_init (print_address (mkAddr A4 A6 (IP6 A4 A6 q) p)) = Some (mkAddr A4 A6 (IP6 A4 A6 q) p).
  Proof. intros. cbn [NetModel.print_address a_ip a_port]. apply init_v6_port; assumption. Qed.
End NetThms.

(* ---------- the same for Address::init as a whole: a NUL anywhere in the text is refused ---------- *)
Lemma lacks_has_nul s : lacks c_nul s -> has_nul s = false.
Proof. unfold has_nul. induction 1 as [|x s Hx _ IH]; [reflexivity|]. cbn [existsb]. rewrite Hx, IH. reflexivity. Qed.

Lemma lacks_cons c x s : ascii_eqb x c = false -> lacks c s -> lacks c (x :: s).
Proof. intros Hx Hs. constructor; assumption. Qed.

Section NetTop.
  Variable A4 A6 : Type.
  Variable resolve4 : bytes -> option A4.
  Variable pton6 : bytes -> option A6.
  Variable ntop4 : A4 -> bytes.
  Variable ntop6 : A6 -> bytes.
  Notation address_init := (address_init A4 A6 resolve4 pton6).
  Notation core := (address_init_core A4 A6 resolve4 pton6).
  Notation print_address := (print_address A4 A6 ntop4 ntop6).

  Lemma init_of_core addr r : lacks c_nul addr -> core addr = r -> address_init addr = r.
  Proof. intros Hn Hc. unfold NetModel.address_init. rewrite (lacks_has_nul addr Hn). exact Hc. Qed.

  Lemma init_none_of_core addr : core addr = None -> address_init addr = None.
  Proof. intros Hc. unfold NetModel.address_init. destruct (has_nul addr); [reflexivity|exact Hc]. Qed.

  (* a NUL anywhere - in the host, in the port, between brackets, behind an alias - and the text is refused, whatever
     the resolver would make of the part in front of it *)
  Theorem init_nul_rejected a b : address_init (a ++ c_nul :: b) = None.
  Proof.
    unfold NetModel.address_init, has_nul. rewrite existsb_app. cbn [existsb].
    replace (ascii_eqb c_nul c_nul) with true by reflexivity. rewrite orb_true_r. reflexivity.
  Qed.

  Theorem top_v4_port h q p : plain h -> lacks c_nul h -> not_alias h -> resolve4 h = Some q -> (p <= 65535)%N ->
    address_init (h ++ ":"%char :: print_dec p) = Some (mkAddr A4 A6 (IP4 A4 A6 q) p).
  Proof.
    intros Hp Hn Ha Hr Hle. apply init_of_core; [|apply init_v4_port; assumption].
    apply lacks_app; [exact Hn|]. apply lacks_cons; [reflexivity|apply print_dec_plain].
  Qed.

  Theorem top_v4_default_port h q : plain h -> lacks c_nul h -> not_alias h -> resolve4 h = Some q ->
    address_init h = Some (mkAddr A4 A6 (IP4 A4 A6 q) 80).
  Proof. intros Hp Hn Ha Hr. apply init_of_core; [exact Hn|apply init_v4_default_port; assumption]. Qed.

  Theorem top_alias_star z : resolve4 (list_of_string "0.0.0.0") = Some z ->
    address_init (list_of_string "*") = Some (mkAddr A4 A6 (IP4 A4 A6 z) 80).
  Proof. intros H. apply init_of_core; [repeat constructor|apply init_alias_star; exact H]. Qed.

  Theorem top_alias_localhost z : resolve4 (list_of_string "127.0.0.1") = Some z ->
    address_init (list_of_string "localhost") = Some (mkAddr A4 A6 (IP4 A4 A6 z) 80).
  Proof. intros H. apply init_of_core; [repeat constructor|apply init_alias_localhost; exact H]. Qed.

  Theorem top_v6_port h6 q p : nobracket h6 -> lacks c_nul h6 -> h6 <> [] -> pton6 h6 = Some q -> (p <= 65535)%N ->
    address_init ("["%char :: h6 ++ "]"%char :: ":"%char :: print_dec p) = Some (mkAddr A4 A6 (IP6 A4 A6 q) p).
  Proof.
    intros Hb Hn Hne Hr Hle. apply init_of_core; [|apply init_v6_port; assumption].
    apply lacks_cons; [reflexivity|]. apply lacks_app; [exact Hn|].
    apply lacks_cons; [reflexivity|]. apply lacks_cons; [reflexivity|apply print_dec_plain].
  Qed.

  Theorem top_empty_port_rejected h : plain h -> address_init (h ++ [":"%char]) = None.
  Proof. intros Hp. apply init_none_of_core, init_empty_port_rejected, Hp. Qed.

  Theorem top_prefix_rejected c pre rest : ascii_eqb c "[" = false -> address_init (c :: pre ++ "["%char :: rest) = None.
  Proof. intros H. apply init_none_of_core, init_prefix_rejected, H. Qed.

  Theorem top_junk_after_bracket_rejected h6 c rest : nobracket h6 -> h6 <> [] -> ascii_eqb c ":" = false ->
    address_init ("["%char :: h6 ++ "]"%char :: c :: rest) = None.
  Proof. intros Hn Hne Hc. apply init_none_of_core, init_junk_after_bracket_rejected; assumption. Qed.

  Theorem top_empty_brackets_rejected rest : address_init ("["%char :: "]"%char :: rest) = None.
  Proof. apply init_none_of_core, init_empty_brackets_rejected. Qed.

  Theorem top_bad_port_rejected h a c b : plain h -> is_digit c = false -> nobracket (a ++ c :: b) ->
    address_init (h ++ ":"%char :: a ++ c :: b) = None.
  Proof. intros Hp Hc Hnb. apply init_none_of_core, init_v4_bad_port_rejected; assumption. Qed.

  Theorem top_print_parse_v4 q p : plain (ntop4 q) -> lacks c_nul (ntop4 q) -> not_alias (ntop4 q) ->
    resolve4 (ntop4 q) = Some q -> (p <= 65535)%N ->
    address_init (print_address (mkAddr A4 A6 (IP4 A4 A6 q) p)) = Some (mkAddr A4 A6 (IP4 A4 A6 q) p).
  Proof. intros. cbn [NetModel.print_address a_ip a_port]. apply top_v4_port; assumption. Qed.

  Theorem top_print_parse_v6 q p : nobracket (ntop6 q) -> lacks c_nul (ntop6 q) -> ntop6 q <> [] ->
    pton6 (ntop6 q) = Some q -> (p <= 65535)%N ->
    address_init (print_address (mkAddr A4 A6 (IP6 A4 A6 q) p)) = Some (mkAddr A4 A6 (IP6 A4 A6 q) p).
  Proof. intros. cbn [NetModel.print_address a_ip a_port]. apply top_v6_port; assumption. Qed.
End NetTop.
