(* Interleaving model of the cross-thread queue of include/pistache/mailbox.h
   (Queue::push / PollableQueue::push / PollableQueue::pop and the callers' drain loop), at the
   granularity of: the atomic exchange, the link store, the notification write, the notification
   drain and the tail read.  Sequentially consistent memory.  No proofs here.

   Entries are listed in the order of their atomic exchange; "prev->next = entry" of the k-th
   exchanged entry is the flag [linked] of item k (its predecessor in exchange order is item
   k-1, or the sentinel). *)
From Coq Require Import List NArith Bool Arith.
Import ListNotations.

Record item := mkItem { ival : N; iprod : nat; linked : bool; written : bool }.

Inductive ppc := PIdle | PExch (k : nat) | PLnk (k : nat).
Record prod := mkProd { todo : list N; pc : ppc }.

(* consumer: parked; about to drain the notification; about to look (first look of a pop); the pinned code's state after
   its look; about to look again after the drain; about to write the notification again; holding an entry it has just
   been given (its caller decides whether to pop again or to stop) *)
Inductive cpc := COut | CDrain | CRead | CAfterLook (found : bool) | CRead2 | CRenotify | CGot.

Record qstate := mkQ {
  items : list item;       (* in exchange order *)
  popped : nat;            (* how many the consumer has taken *)
  ev : nat;                (* eventfd counter *)
  prods : list prod;
  cst : cpc;
  out : list N }.

Definition init (progs : list (list N)) : qstate :=
  mkQ [] 0 0 (map (fun p => mkProd p PIdle) progs) COut [].

Fixpoint upd {A} (l : list A) (k : nat) (f : A -> A) : list A :=
  match l, k with
  | [], _ => []
  | x :: r, O => f x :: r
  | x :: r, S k' => x :: upd r k' f
  end.

Definition set_linked (i : item) := mkItem (ival i) (iprod i) true (written i).
Definition set_written (i : item) := mkItem (ival i) (iprod i) (linked i) true.

Inductive actor := Consumer | ConsumerStop | Producer (i : nat).

(* one producer step: exchange / link / notify *)
Definition pstep (st : qstate) (i : nat) : qstate :=
  match nth_error (prods st) i with
  | None => st
  | Some p =>
      match pc p with
      | PIdle =>
          match todo p with
          | [] => st
          | v :: vs =>
              let k := length (items st) in
              mkQ (items st ++ [mkItem v i false false]) (popped st) (ev st)
                  (upd (prods st) i (fun _ => mkProd vs (PExch k))) (cst st) (out st)
          end
      | PExch k =>
          mkQ (upd (items st) k set_linked) (popped st) (ev st)
              (upd (prods st) i (fun q => mkProd (todo q) (PLnk k))) (cst st) (out st)
      | PLnk k =>
          mkQ (upd (items st) k set_written) (popped st) (S (ev st))
              (upd (prods st) i (fun q => mkProd (todo q) PIdle)) (cst st) (out st)
      end
  end.

Definition look (st : qstate) (found notfound : cpc) : qstate :=
  match nth_error (items st) (popped st) with
  | Some it => if linked it
               then mkQ (items st) (S (popped st)) (ev st) (prods st) found (out st ++ [ival it])
               else mkQ (items st) (popped st) (ev st) (prods st) notfound (out st)
  | None => mkQ (items st) (popped st) (ev st) (prods st) notfound (out st)
  end.

(* one consumer step of the code as it is now (fix of the fourth round).  Woken only when the eventfd is readable.  pop():
   look; an entry that is there is returned, the notification untouched.  Nothing there: drain the notification, look
   again; an entry found by this second look is returned after the notification has been written again; nothing: null,
   the consumer is parked.  With an entry in hand ([CGot]) the caller pops again ([Consumer]) or stops and goes back to
   the event loop ([ConsumerStop]) - the library's loops go on until null, a caller of the class may not. *)
Definition cstep (st : qstate) : qstate :=
  match cst st with
  | COut => if Nat.ltb 0 (ev st)
            then mkQ (items st) (popped st) (ev st) (prods st) CRead (out st) else st
  | CRead => look st CGot CDrain
  | CDrain => mkQ (items st) (popped st) 0 (prods st) CRead2 (out st)
  | CRead2 => look st CRenotify COut
  | CRenotify => mkQ (items st) (popped st) (S (ev st)) (prods st) CGot (out st)
  | CGot => mkQ (items st) (popped st) (ev st) (prods st) CRead (out st)
  | CAfterLook _ => st
  end.
Definition cstop (st : qstate) : qstate :=
  match cst st with
  | CGot => mkQ (items st) (popped st) (ev st) (prods st) COut (out st)
  | _ => st
  end.

(* the code between the first fix and this one: each pop() drained the notification and then looked; a caller that
   stops with an entry in hand leaves the eventfd drained *)
Definition cstep_drain_first (st : qstate) : qstate :=
  match cst st with
  | COut => if Nat.ltb 0 (ev st)
            then mkQ (items st) (popped st) (ev st) (prods st) CDrain (out st) else st
  | CDrain => mkQ (items st) (popped st) 0 (prods st) CRead (out st)
  | CRead => look st CGot COut
  | CGot => mkQ (items st) (popped st) (ev st) (prods st) CDrain (out st)
  | _ => st
  end.

(* the order the pinned snapshot had: look first, drain afterwards *)
Definition cstep_old (st : qstate) : qstate :=
  match cst st with
  | COut => if Nat.ltb 0 (ev st)
            then mkQ (items st) (popped st) (ev st) (prods st) CRead (out st) else st
  | CRead => look st (CAfterLook true) (CAfterLook false)
  | CAfterLook found =>
      mkQ (items st) (popped st) 0 (prods st) (if found then CRead else COut) (out st)
  | _ => st
  end.

Definition step (st : qstate) (a : actor) : qstate :=
  match a with
  | Consumer => cstep st
  | ConsumerStop => cstop st
  | Producer i => pstep st i
  end.
Definition step_old (st : qstate) (a : actor) : qstate :=
  match a with
  | Consumer => cstep_old st
  | ConsumerStop => st
  | Producer i => pstep st i
  end.
Definition step_drain_first (st : qstate) (a : actor) : qstate :=
  match a with
  | Consumer => cstep_drain_first st
  | ConsumerStop => cstop st
  | Producer i => pstep st i
  end.

Definition run (sched : list actor) (st : qstate) : qstate := fold_left step sched st.
Definition run_old (sched : list actor) (st : qstate) : qstate := fold_left step_old sched st.
Definition run_drain_first (sched : list actor) (st : qstate) : qstate := fold_left step_drain_first sched st.

(* nothing left to do: every producer finished, the consumer is parked and will not be woken *)
Definition quiescent (st : qstate) : bool :=
  forallb (fun p => match todo p, pc p with [], PIdle => true | _, _ => false end) (prods st)
  && match cst st with COut => Nat.eqb (ev st) 0 | _ => false end.

(* name used by the extracted driver *)
Definition run0 := run.
