(* C15 — every client request is answered by exactly its own response.  Only statements; proofs in
   ClientLemmas.v.  krun true m = the client with m connections per host (close on time-out, fix b634e24). *)
From Coq Require Import List Arith Bool.
Require Import ClientModel ClientLemmas.
Import ListNotations.

(* for every history of issues, responses, time-outs and server closes: fulfilled only with the
   response to that very request *)
Theorem C15_fulfilled_only_with_own_response : forall m evs r a, st (krun true m evs) r = Fulfilled a -> a = r.
Proof. exact own_response. Qed.
Print Assumptions C15_fulfilled_only_with_own_response.

(* settled at most once: once fulfilled or rejected, the outcome never changes, whatever follows *)
Theorem C15_settled_at_most_once : forall m evs more x,
  final (st (krun true m evs) x) = true -> st (krun true m (evs ++ more)) x = st (krun true m evs) x.
Proof. exact settled_forever. Qed.
Print Assumptions C15_settled_at_most_once.

(* fulfilled whenever the server answers it *)
Theorem C15_answer_fulfils : forall m evs c r,
  inflight (conns (krun true m evs) c) = Some r -> st (kstep true m (krun true m evs) (KRespond c)) r = Fulfilled r.
Proof. intros m evs c r. exact (response_fulfils m _ c r (run_inv m evs)). Qed.
Print Assumptions C15_answer_fulfils.

(* rejected when its time-out expires on an established connection *)
Theorem C15_timeout_rejects : forall m evs c r,
  inflight (conns (krun true m evs) c) = Some r -> st (kstep true m (krun true m evs) (KTimeout c)) r = Rejected.
Proof. intros m evs c r. exact (timeout_rejects m _ c r (run_inv m evs)). Qed.
Print Assumptions C15_timeout_rejects.

(* never more simultaneous connections in use than configured *)
Theorem C15_connection_limit : forall m evs c r, inflight (conns (krun true m evs) c) = Some r -> c < m.
Proof. exact in_use_bounded. Qed.
Print Assumptions C15_connection_limit.

(* the pinned behaviour (connection reused after a time-out) is refuted by a 4-event history *)
Theorem C15_refuted_without_close_on_timeout :
  st (krun false 1 [KIssue; KTimeout 0; KIssue; KRespond 0]) 1 = Fulfilled 0.
Proof. exact late_response_mismatch_without_close. Qed.
Print Assumptions C15_refuted_without_close_on_timeout.

(* The hand-over between threads (Client::doRequest queues in a second step; a completing thread releases the
   connection and looks at the queue in two steps; every interleaving of any number of threads over any number of
   connections): a request is never left queued beside an idle connection with no thread left to look at the queue ... *)
Theorem C15_no_request_left_queued_beside_an_idle_connection : forall m evs, h_stuck (hrun true m evs) = false.
Proof. exact handover_never_stuck. Qed.
Print Assumptions C15_no_request_left_queued_beside_an_idle_connection.

(* ... which the pinned code (no second look at the queue after queueing, fixed by 5005dd0) violates in 5 steps;
   replayed on the implementation as the L cases *)
Theorem C15_refuted_without_second_look :
  h_stuck (hrun false 1 [HPickOk; HPickFail; HRelease; HProcess; HEnqueue]) = true.
Proof. exact handover_stuck_without_recheck. Qed.
Print Assumptions C15_refuted_without_second_look.
