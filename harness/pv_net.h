// Helpers for harnesses that talk to a live endpoint on loopback with raw sockets.
#pragma once
#include <arpa/inet.h>
#include <cerrno>
#include <cstring>
#include <netinet/in.h>
#include <netinet/tcp.h>
#include <poll.h>
#include <string>
#include <sys/socket.h>
#include <unistd.h>

namespace pv {
inline int connect_loopback(uint16_t port)
{
    int fd = ::socket(AF_INET, SOCK_STREAM, 0);
    if (fd < 0)
        return -1;
    sockaddr_in a {};
    a.sin_family      = AF_INET;
    a.sin_port        = htons(port);
    a.sin_addr.s_addr = htonl(INADDR_LOOPBACK);
    int one           = 1;
    setsockopt(fd, IPPROTO_TCP, TCP_NODELAY, &one, sizeof one);
    if (::connect(fd, reinterpret_cast<sockaddr*>(&a), sizeof a) != 0)
    {
        ::close(fd);
        return -1;
    }
    return fd;
}
inline bool send_all(int fd, const std::string& s)
{
    size_t off = 0;
    while (off < s.size())
    {
        ssize_t n = ::send(fd, s.data() + off, s.size() - off, MSG_NOSIGNAL);
        if (n <= 0)
            return false;
        off += static_cast<size_t>(n);
    }
    return true;
}
// read until `done(buf)` or EOF or timeout (ms); returns false on timeout
template <typename F>
inline bool read_until(int fd, std::string& buf, F done, int timeout_ms, bool* eof = nullptr)
{
    if (eof)
        *eof = false;
    while (!done(buf))
    {
        pollfd p = { fd, POLLIN, 0 };
        int pr   = ::poll(&p, 1, timeout_ms);
        if (pr <= 0)
            return false;
        char tmp[65536];
        ssize_t n = ::recv(fd, tmp, sizeof tmp, 0);
        if (n <= 0)
        {
            if (eof)
                *eof = true;
            return done(buf);
        }
        buf.append(tmp, static_cast<size_t>(n));
    }
    return true;
}
struct SimpleResponse
{
    bool ok = false;
    int code = 0;
    std::string head;
    std::string body;
    std::string header(const std::string& name) const
    {
        std::string lname;
        for (char c : name)
            lname.push_back(static_cast<char>(tolower(c)));
        size_t pos = 0;
        while (pos < head.size())
        {
            size_t e = head.find("\r\n", pos);
            if (e == std::string::npos)
                e = head.size();
            std::string line = head.substr(pos, e - pos);
            size_t c         = line.find(':');
            if (c != std::string::npos)
            {
                std::string n;
                for (size_t i = 0; i < c; ++i)
                    n.push_back(static_cast<char>(tolower(line[i])));
                if (n == lname)
                {
                    size_t v = c + 1;
                    while (v < line.size() && line[v] == ' ')
                        ++v;
                    return line.substr(v);
                }
            }
            pos = e + 2;
        }
        return "";
    }
};
// reads one Content-Length framed response from a keep-alive connection
inline SimpleResponse read_response(int fd, int timeout_ms = 3000)
{
    SimpleResponse r;
    std::string buf;
    auto headDone = [](const std::string& b) { return b.find("\r\n\r\n") != std::string::npos; };
    if (!read_until(fd, buf, headDone, timeout_ms))
        return r;
    size_t he = buf.find("\r\n\r\n");
    r.head    = buf.substr(0, he);
    if (r.head.size() >= 12)
        r.code = atoi(r.head.substr(9, 3).c_str());
    size_t cl      = 0;
    std::string cv = r.header("Content-Length");
    if (!cv.empty())
        cl = static_cast<size_t>(atol(cv.c_str()));
    size_t need = he + 4 + cl;
    if (!read_until(fd, buf, [&](const std::string& b) { return b.size() >= need; }, timeout_ms))
        return r;
    r.body = buf.substr(he + 4, cl);
    r.ok   = true;
    return r;
}
} // namespace pv
