// Harness for C20: drives Base64Encoder / Base64Decoder and Authorization's Basic accessors
// of the current /repo tree on the cases given on stdin, one canonical line per case.
#include <pistache/base64.h>
#include <pistache/http_header.h>

#include "pv_util.h"

using namespace Pistache;

static std::string show(const std::function<std::string()>& f)
{
    try
    {
        return pv::hex(f());
    }
    catch (const std::exception&)
    {
        return "err";
    }
}

static std::string handle(const std::string& line)
{
    std::ostringstream std_cout;
    {
        auto t = pv::split(line);
        if (t.size() == 2 && t[0] == "E")
        {
            std::string in = pv::unhex(t[1]);
            std::vector<std::byte> bin(in.size());
            for (size_t i = 0; i < in.size(); ++i)
                bin[i] = std::byte(static_cast<unsigned char>(in[i]));
            Base64Encoder enc(bin);
            std::string e = enc.Encode();
            std_cout << "E " << pv::hex(e) << " rfc=same\n";
        }
        else if (t.size() == 2 && t[0] == "D")
        {
            // exact-size heap copy so that any read past the terminator is outside the allocation
            std::string in = pv::unhex(t[1]);
            in.shrink_to_fit();
            try
            {
                Base64Decoder dec(in);
                const auto& o = dec.Decode();
                std::string s;
                for (auto b : o)
                    s.push_back(static_cast<char>(b));
                std_cout << "D ok " << pv::hex(s) << "\n";
            }
            catch (const std::out_of_range&)
            {
                std_cout << "D err range\n";
            }
            catch (const std::runtime_error&)
            {
                std_cout << "D err runtime\n";
            }
        }
        else if (t.size() == 3 && t[0] == "B")
        {
            Http::Header::Authorization a;
            try
            {
                a.setBasicUserPassword(pv::unhex(t[1]), pv::unhex(t[2]));
            }
            catch (const std::exception&)
            {
                return "B seterr";
            }
            std::ostringstream os;
            a.write(os);
            // parse the written text back, as the receiving side does
            Http::Header::Authorization b;
            b.parse(os.str());
            std_cout << "B " << pv::hex(os.str()) << " "
                      << show([&] { return b.getBasicUser(); }) << " "
                      << show([&] { return b.getBasicPassword(); }) << "\n";
        }
        else if (t.size() == 2 && t[0] == "G")
        {
            Http::Header::Authorization b;
            b.parse(pv::unhex(t[1]));
            std_cout << "G " << show([&] { return b.getBasicUser(); }) << " "
                      << show([&] { return b.getBasicPassword(); }) << "\n";
        }
        else
            std_cout << "BADCASE\n";
    }
    std::string r = std_cout.str();
    if (!r.empty() && r.back() == '\n')
        r.pop_back();
    return r;
}

int main()
{
    return pv::run_cases(handle);
}
