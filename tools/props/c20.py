"""C20 — Base64 and Basic credentials round-trip for every byte string."""
import base64
import pv
from diffcheck import Spec, run_spec

HARNESSES = [("h_base64", "asan", ())]
B64 = b"ABCDEFGHIJKLMNOPQRSTUVWXYZabcdefghijklmnopqrstuvwxyz0123456789+/"


class C20(Spec):
    pid = "C20"
    area = "base64"
    harness = "h_base64"
    variant = "asan"
    rule = ("E: byte strings of every length 0..N (every length mod 3, every byte value, all-0x00/0xff, boundary "
            "sextets); D: valid text, text with padding moved/removed, every length mod 4, bytes outside the "
            "alphabet incl. NUL and >=0x80, exact-size heap copies under ASan; B: users without ':' (incl. empty) "
            "and passwords with ':' and arbitrary octets; G: arbitrary Authorization values. Non-trivial = case whose "
            "output is not the empty string; distinct by case line.")
    assumptions = ["std::string is NUL-terminated at index size() (the size walk may read it)",
                   "exception type is the only error detail compared (runtime_error vs out_of_range)"]

    def gen(self, rng, tier):
        n_len = 300 if tier == "quick" else 2000
        reps = 3 if tier == "quick" else 6
        cases = []
        for L in range(0, n_len + 1):
            for r in range(reps if L <= 64 or tier != "quick" else 1):
                mode = rng.randrange(4)
                if mode == 0:
                    b = bytes(rng.randrange(256) for _ in range(L))
                elif mode == 1:
                    b = bytes([rng.choice([0, 255, 0x3f, 0xfc, 0x03, 0xf0, 0x0f, 0xc0])] * L)
                elif mode == 2:
                    b = bytes(rng.choice([0, 1, 254, 255, 62, 63, 64, 127, 128]) for _ in range(L))
                else:
                    b = bytes((rng.randrange(256) + i) % 256 for i in range(L))
                cases.append("E " + pv.hexs(b))
                cases.append("D " + pv.hexs(base64.b64encode(b)))
        # every byte value in every position of a triplet
        for v in range(256):
            for pos in range(3):
                t = [rng.randrange(256) for _ in range(3)]
                t[pos] = v
                cases.append("E " + pv.hexs(bytes(t)))
        # invalid / mutated text
        n_bad = 1500 if tier == "quick" else 20000
        for _ in range(n_bad):
            L = rng.choice([0, 1, 2, 3, 4, 5, 6, 7, 8, 9, 11, 12, 13, 16, 20, 24, 31, 32, 33, 64, 100])
            mode = rng.randrange(6)
            if mode == 0:   # random alphabet, no padding
                t = bytes(rng.choice(B64) for _ in range(L))
            elif mode == 1:  # padding in odd places
                t = bytearray(rng.choice(B64) for _ in range(L))
                for _k in range(rng.randrange(1, 4)):
                    if L:
                        t[rng.randrange(L)] = ord("=")
                t = bytes(t)
            elif mode == 2:  # arbitrary bytes
                t = bytes(rng.randrange(256) for _ in range(L))
            elif mode == 3:  # valid encoding with one byte replaced
                raw = bytes(rng.randrange(256) for _ in range(rng.randrange(1, 40)))
                t = bytearray(base64.b64encode(raw))
                t[rng.randrange(len(t))] = rng.choice([0, 10, 13, 32, 45, 95, 61, 128, 255, 64, 91, 96, 123, 47, 58])
                t = bytes(t)
            elif mode == 4:  # valid encoding truncated or extended
                raw = bytes(rng.randrange(256) for _ in range(rng.randrange(1, 40)))
                t = base64.b64encode(raw)
                t = t[:rng.randrange(len(t) + 1)] + bytes(rng.choice(B64 + b"=") for _ in range(rng.randrange(0, 5)))
            else:            # only padding / NULs
                t = bytes(rng.choice(b"=\x00") for _ in range(L))
            cases.append("D " + pv.hexs(t))
        # Basic credentials
        n_b = 400 if tier == "quick" else 5000
        for _ in range(n_b):
            ul = rng.choice([0, 1, 2, 3, 4, 5, 8, 13, 30])
            plen = rng.choice([0, 1, 2, 3, 4, 5, 8, 13, 30])
            mode = rng.randrange(3)
            if mode == 0:
                u = bytes(rng.choice(b"abcXYZ019-_.@ ") for _ in range(ul))
                p = bytes(rng.choice(b"abc:XYZ019:-_.@ ") for _ in range(plen))
            elif mode == 1:
                u = bytes(rng.choice([x for x in range(256) if x != 58]) for _ in range(ul))
                p = bytes(rng.randrange(256) for _ in range(plen))
            else:
                u = bytes(rng.choice(b"ab:") for _ in range(ul))   # may contain ':' -> must be refused
                p = bytes(rng.choice(b"ab:") for _ in range(plen))
            cases.append("B %s %s" % (pv.hexs(u), pv.hexs(p)))
        for _ in range(200 if tier == "quick" else 3000):
            pre = rng.choice([b"Basic ", b"Basic", b"basic ", b"Bearer ", b"Basic  ", b""])
            L = rng.choice([0, 1, 3, 4, 5, 8, 12])
            body = bytes(rng.choice(B64 + b"=:") for _ in range(L))
            cases.append("G " + pv.hexs(pre + body))
        return cases

    def oracle(self, case, impl):
        t = case.split()
        o = impl.split()
        if impl.startswith(("CRASH", "HANG")):
            return "implementation %s on %s" % (impl, case)
        if t[0] == "E":
            want = base64.b64encode(pv.unhex(t[1]))
            if pv.unhex(o[1]) != want:
                return "Encode(%s) is not the canonical RFC 4648 text" % t[1]
        elif t[0] == "D":
            txt = pv.unhex(t[1])
            # text that is the encoding of something must decode to it
            try:
                raw = base64.b64decode(txt, validate=True)
                canonical = base64.b64encode(raw) == txt
            except Exception:
                canonical = False
            if canonical and (o[1] != "ok" or pv.unhex(o[2]) != raw):
                return "Decode of canonical text %s wrong: %s" % (t[1], impl)
            if o[1] == "ok" and 4 * len(pv.unhex(o[2])) > 3 * len(txt):
                return "Decode produced more bytes than the input can carry: %s" % case
        elif t[0] == "B":
            u, p = pv.unhex(t[1]), pv.unhex(t[2])
            if b":" in u:
                if o[1] != "seterr":
                    return "user containing ':' accepted: %s" % case
            else:
                if len(o) != 4 or o[2] == "err" or o[3] == "err" or pv.unhex(o[2]) != u or pv.unhex(o[3]) != p:
                    return "Basic credentials do not round-trip: %s -> %s" % (case, impl)
        return None

    def nontrivial(self, case, impl):
        return case.split()[1] != "-" and not impl.endswith(" -")

    def kind(self, case, impl):
        t = case.split()[0]
        o = impl.split()
        if t == "D":
            return "D-" + (o[1] if len(o) > 1 else "?") + ("-" + o[2] if len(o) > 2 and o[1] == "err" else "")
        if t == "B":
            return "B-" + ("seterr" if len(o) > 1 and o[1] == "seterr" else "ok")
        if t == "G":
            return "G-" + ("err" if "err" in o[1:] else "ok")
        return t

    def search(self, case, run_impl, run_model):
        # neighbourhood: all single-byte substitutions from a boundary set, on the failing case
        t = case.split()
        if t[0] not in ("E", "D"):
            return []
        b = pv.unhex(t[1])
        neigh = []
        for i in range(min(len(b), 24)):
            for v in (0, 0x3f, 0x40, 0x80, 0xff, 61, 43, 47):
                nb = bytearray(b)
                nb[i] = v
                neigh.append("%s %s" % (t[0], pv.hexs(bytes(nb))))
        for L in range(0, 13):
            neigh.append("E " + pv.hexs(b[:L]))
            neigh.append("D " + pv.hexs(base64.b64encode(b[:L])))
        outs = run_impl(neigh)
        res = []
        for c, o in zip(neigh, outs):
            w = self.oracle(c, o)
            if w:
                res.append((c, o, w))
        return res


def run(rep, tier, seed):
    return run_spec(C20(), rep, tier, seed)


def replay(obj):
    s = C20()
    case = obj["case"]
    exe = pv.build_harness(s.harness, s.variant)
    drv = pv.build_model_driver()
    i, _ = pv.run_parallel([exe], [case])
    m, _ = pv.run_parallel([drv, s.area], [case])
    print("case  :", case)
    print("impl  :", i[0])
    print("model :", m[0])
    w = s.oracle(case, i[0])
    print("oracle:", w or "property holds on this case")
    return 1 if w else 0
