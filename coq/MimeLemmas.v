From Coq Require Import Ascii String List NArith Bool Arith Lia.
Require Import Bytes BytesLemmas NumParse TablesGen MimeModel.
Import ListNotations.

Definition ntypes : nat := length mime_types.
Definition nsubs : nat := length mime_subtypes.
Definition nsuf : nat := length mime_suffixes.

Definition sufk_eqb (a : sufk) (b : option N) : bool :=
  match a, b with FNone, None => true | FKnown i, Some j => N.eqb i j | _, _ => false end.

(* parse (toString (built media type)) gives back the same components *)
Definition rt_ok (t s : N) (sf : option N) (q : option N) : bool :=
  match parse_media (build_string t s sf q []) with
  | inr m => N.eqb (md_top m) t
             && match md_sub m with SKnown i => N.eqb i s | _ => false end
             && sufk_eqb (md_suffix m) sf
             && match md_q m, q with Some a, Some b => N.eqb a b | None, None => true | _, _ => false end
             && match md_params m with [] => true | _ => false end
  | inl _ => false
  end.

Definition sweep_tss : bool :=
  forallb (fun t => forallb (fun s =>
    rt_ok t s None None && forallb (fun f => rt_ok t s (Some f) None) (nrange nsuf)) (nrange nsubs)) (nrange ntypes).

Lemma sweep_tss_true : sweep_tss = true.
Proof. vm_compute. reflexivity. Qed.

Theorem roundtrip_type_sub_suffix : forall t s sf,
  (t < N.of_nat ntypes)%N -> (s < N.of_nat nsubs)%N ->
  match sf with Some f => (f < N.of_nat nsuf)%N | None => True end ->
  rt_ok t s sf None = true.
Proof.
  intros t s sf Ht Hs Hf. pose proof sweep_tss_true as H. unfold sweep_tss in H.
  pose proof (sweepN ntypes _ H t Ht) as H1. cbv beta in H1.
  pose proof (sweepN nsubs _ H1 s Hs) as H2. cbv beta in H2.
  apply andb_true_iff in H2. destruct H2 as [H2 H3].
  destruct sf as [f|]; [|exact H2]. apply (sweepN nsuf _ H3 f Hf).
Qed.

(* every quality value in hundredths survives, on every type/subtype *)
Definition sweep_q : bool :=
  forallb (fun q => rt_ok 1 1 None (Some q) && rt_ok 5 8 (Some 0%N) (Some q)) (nrange 101).
Lemma sweep_q_true : sweep_q = true.
Proof. vm_compute. reflexivity. Qed.

Theorem roundtrip_quality : forall q, (q <= 100)%N ->
  rt_ok 1 1 None (Some q) = true /\ rt_ok 5 8 (Some 0%N) (Some q) = true.
Proof.
  intros q Hq. pose proof sweep_q_true as H. unfold sweep_q in H.
  pose proof (sweepN 101 _ H q ltac:(lia)) as H1. cbv beta in H1. apply andb_true_iff in H1. exact H1.
Qed.

(* the string form of a parsed media type is the text it was parsed from *)
Theorem text_preserved s m : parse_media s = inr m -> to_string m = s.
Proof.
  unfold parse_media, to_string. intros H.
  repeat match type of H with
  | context [match ?x with _ => _ end] => destruct x; try discriminate
  end; inversion H; reflexivity.
Qed.
