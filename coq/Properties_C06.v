(* C06 — queued writes reach the peer completely, in order and exactly once (partial: the write
   path's bookkeeping for one connection against an arbitrary socket oracle; kernel buffering and
   the timing of real EAGAIN are the oracle; liveness is checked on the live transport). *)
From Coq Require Import Ascii String List NArith Arith.
Local Open Scope string_scope.
Require Import Bytes TransportModel TransportLemmas.
Import ListNotations.

(* for every queue of writes and every pattern of short writes and would-blocks over the
   successive send calls: what the peer has received followed by what is still pending is always
   exactly the concatenation of the buffers in the order issued (no byte lost, duplicated,
   reordered or interleaved); entries stay consistent; a promise is settled at most once and never
   while its entry is still queued *)
Theorem C06_stream_and_settle_once : forall total fuel s orc,
  Inv total s -> Inv total (fst (drain fuel s orc)).
Proof. exact drain_inv. Qed.
Print Assumptions C06_stream_and_settle_once.

(* a promise is fulfilled with its buffer's full byte count, however the buffer was cut up by
   short writes and would-blocks *)
Theorem C06_fulfilled_with_full_size : forall sz fuel s orc,
  Forall entry_ok (queue s) -> sizes_ok sz s -> sizes_ok sz (fst (drain fuel s orc)).
Proof. exact drain_sizes. Qed.
Print Assumptions C06_fulfilled_with_full_size.

Example C06_ex :
  let s := events 10 (issue [list_of_string "hello"; list_of_string "world!"]) [Acc 2; WouldBlock; Acc 1; WouldBlock; Acc 100; Acc 3; Acc 100] in
  wire s = list_of_string "helloworld!" /\ settled s = [(0, 5); (1, 6)] /\ queue s = [].
Proof. vm_compute. repeat split. Qed.

(* Transport::onReady: a writable report for the descriptor always leads to a drain attempt, also
   when the same poll result reports it readable *)
Theorem C06_writable_never_ignored : forall s rd orc e q,
  queue s = e :: q -> on_ready true s (Ready rd true) orc = drain_event (mkTS (queue s) (wire s) (settled s) false (sends s)) orc.
Proof. exact writable_never_ignored. Qed.
Print Assumptions C06_writable_never_ignored.

(* ... and when the socket accepts again that attempt delivers everything pending *)
Theorem C06_drain_delivers_all_when_accepted : forall q s big extra, queue s = q -> Forall (fun e => length (e_rest e) <= big) q ->
  queue (fst (drain (S (length q) + extra) s (repeat (Acc big) (length q)))) = []
  /\ write_interest (fst (drain (S (length q) + extra) s (repeat (Acc big) (length q)))) = false.
Proof. exact drain_accept_all. Qed.
Print Assumptions C06_drain_delivers_all_when_accepted.

(* the dispatch of the pinned tree (readable ELSE writable) is refuted: the combined report changes nothing *)
Theorem C06_refuted_readable_else_writable : forall s orc, on_ready false s (Ready true true) orc = (s, orc).
Proof. exact combined_event_lost_before_fix. Qed.
Print Assumptions C06_refuted_readable_else_writable.

(* "always fulfilled when the peer stays connected and keeps reading", on the model: from every state the
   write path can be in (the invariant; reached after any pattern of short writes and would-blocks), a drain
   attempt against a socket that accepts delivers the whole stream, fulfils every queued promise - in issue
   order, after those settled before - with the full size of its buffer, and leaves nothing queued *)
Theorem C06_all_fulfilled_when_accepted : forall total sz s big extra,
  Inv total s -> sizes_ok sz s -> Forall (fun e => length (e_rest e) <= big) (queue s) ->
  let s' := fst (drain (S (length (queue s)) + extra) s (repeat (Acc big) (length (queue s)))) in
  queue s' = [] /\ wire s' = total
  /\ map fst (settled s') = (map fst (settled s) ++ pids s)%list
  /\ Forall (fun p => snd p = sz (fst p)) (settled s').
Proof. exact all_fulfilled_when_accepted. Qed.
Print Assumptions C06_all_fulfilled_when_accepted.
