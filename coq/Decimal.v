(* Decimal printing and parsing of N round-trip, for every n (used for ports, Content-Length up
   to 2^64-1, Max-Age, status codes, delta-seconds). *)
From Coq Require Import Ascii String List NArith ZArith Bool Arith Lia.
Require Import Bytes BytesLemmas NumParse.
Import ListNotations.
Local Open Scope N_scope.

Definition dchar (d : N) : ascii := n2b (48 + d).

Lemma digit_val_dchar d : d < 10 -> digit_val 10 (dchar d) = Some d.
Proof.
  intros H. unfold digit_val, dchar, is_digit, in_range. rewrite b2n_n2b by lia.
  destruct (N.leb_spec 48 (48 + d)); [|lia]. destruct (N.leb_spec (48 + d) 57); [|lia].
  cbn [andb]. f_equal. lia.
Qed.

Definition valfrom (a : N) (ds : bytes) : N :=
  fold_left (fun v c => match digit_val 10 c with Some d => v * 10 + d | None => v end) ds a.

Lemma valfrom_cons a c r :
  valfrom a (c :: r) = valfrom (match digit_val 10 c with Some d => a * 10 + d | None => a end) r.
Proof. reflexivity. Qed.

Definition all_digits (ds : bytes) : Prop := Forall (fun c => exists d, digit_val 10 c = Some d) ds.

Lemma dec_digits_S f n acc :
  dec_digits (S f) n acc =
  if n / 10 =? 0 then n2b (48 + n mod 10) :: acc else dec_digits f (n / 10) (n2b (48 + n mod 10) :: acc).
Proof. reflexivity. Qed.

Lemma dec_digits_spec : forall f n acc, n < 10 ^ N.of_nat (S f) ->
  exists k, (1 <= k)%nat /\ length (dec_digits (S f) n acc) = (length acc + k)%nat
    /\ (forall a, valfrom a (dec_digits (S f) n acc) = valfrom (a * 10 ^ N.of_nat k + n) acc)
    /\ (all_digits acc -> all_digits (dec_digits (S f) n acc))
    /\ exists pre, dec_digits (S f) n acc = pre ++ acc /\ length pre = k.
Proof.
  induction f as [|f IH]; intros n acc Hn.
  - assert (n < 10) by (replace (10 ^ N.of_nat 1) with 10 in Hn by reflexivity; exact Hn). cbn [dec_digits].
    assert (Hd : n / 10 = 0) by (apply N.div_small; lia). rewrite Hd. cbn [N.eqb].
    exists 1%nat. split; [lia|]. split; [cbn; lia|]. split.
    + intros a. rewrite valfrom_cons. fold (dchar (n mod 10)).
      rewrite digit_val_dchar by (apply N.mod_lt; lia). rewrite N.mod_small by lia.
      replace (10 ^ N.of_nat 1) with 10 by reflexivity. reflexivity.
    + split.
      * intros Ha. constructor; [|exact Ha]. exists (n mod 10). apply digit_val_dchar. apply N.mod_lt. lia.
      * exists [n2b (48 + n mod 10)]. split; reflexivity.
  - rewrite (dec_digits_S (S f) n acc). destruct (N.eqb_spec (n / 10) 0) as [Hz|Hz].
    + exists 1%nat. split; [lia|]. split; [cbn; lia|]. split.
      * intros a. rewrite valfrom_cons. fold (dchar (n mod 10)).
        rewrite digit_val_dchar by (apply N.mod_lt; lia).
        assert (n < 10). { destruct (N.lt_ge_cases n 10); [assumption|]. assert (1 <= n / 10) by (apply N.div_le_lower_bound; lia). lia. }
        rewrite N.mod_small by lia. replace (10 ^ N.of_nat 1) with 10 by reflexivity. reflexivity.
      * split.
        -- intros Ha. constructor; [|exact Ha]. exists (n mod 10). apply digit_val_dchar. apply N.mod_lt. lia.
        -- exists [n2b (48 + n mod 10)]. split; reflexivity.
    + assert (Hq : n / 10 < 10 ^ N.of_nat (S f)).
      { apply N.div_lt_upper_bound; [lia|]. replace (N.of_nat (S (S f))) with (N.succ (N.of_nat (S f))) in Hn by lia.
        rewrite N.pow_succ_r' in Hn. exact Hn. }
      destruct (IH (n / 10) (n2b (48 + n mod 10) :: acc) Hq) as [k [Hk [Hlen [Hval [Hall [pre [Hpre Hpl]]]]]]].
      exists (S k). split; [lia|]. split; [rewrite Hlen; cbn; lia|]. split.
      * intros a. rewrite Hval. rewrite valfrom_cons. fold (dchar (n mod 10)).
        rewrite digit_val_dchar by (apply N.mod_lt; lia). f_equal.
        replace (N.of_nat (S k)) with (N.succ (N.of_nat k)) by lia. rewrite N.pow_succ_r'.
        pose proof (N.div_mod n 10 ltac:(lia)). lia.
      * split.
        -- intros Ha. apply Hall. constructor; [|exact Ha]. exists (n mod 10). apply digit_val_dchar. apply N.mod_lt. lia.
        -- exists (pre ++ [n2b (48 + n mod 10)]). split; [rewrite Hpre, <- app_assoc; reflexivity|rewrite app_length; cbn; lia].
Qed.

Lemma pow2_le_pow10 k : 2 ^ k <= 10 ^ k.
Proof. apply N.pow_le_mono_l. lia. Qed.

Lemma print_dec_fuel n : n < 10 ^ N.of_nat (S (N.to_nat (N.log2 n))).
Proof.
  replace (N.of_nat (S (N.to_nat (N.log2 n)))) with (N.succ (N.log2 n)) by lia.
  destruct (N.eq_dec n 0) as [->|Hn]; [cbn; lia|].
  pose proof (N.log2_spec n ltac:(lia)) as [_ H]. pose proof (pow2_le_pow10 (N.succ (N.log2 n))). lia.
Qed.

Lemma print_dec_spec n :
  print_dec n <> [] /\ all_digits (print_dec n) /\ valfrom 0 (print_dec n) = n.
Proof.
  unfold print_dec. destruct (dec_digits_spec (N.to_nat (N.log2 n)) n [] (print_dec_fuel n))
    as [k [Hk [Hlen [Hval [Hall _]]]]].
  split.
  - intros E. rewrite E in Hlen. cbn in Hlen. lia.
  - split; [apply Hall; constructor|]. rewrite Hval. cbn. lia.
Qed.

(* take_digits reads exactly an all-digit prefix when what follows does not start with a digit *)
Lemma take_digits_all : forall ds rest a c,
  all_digits ds -> (match rest with x :: _ => digit_val 10 x = None | [] => True end) ->
  take_digits 10 (ds ++ rest) a c = (valfrom a ds, (c + length ds)%nat, rest).
Proof.
  induction ds as [|d ds IH]; intros rest a c Ha Hr.
  - cbn [app length valfrom fold_left]. rewrite Nat.add_0_r. destruct rest as [|x r]; [reflexivity|]. cbn [take_digits]. rewrite Hr. reflexivity.
  - inversion Ha as [|? ? [v Hv] Ha']; subst. cbn [app take_digits]. rewrite Hv.
    rewrite (IH rest (a * 10 + v) (S c) Ha' Hr). rewrite valfrom_cons, Hv.
    cbn [length]. rewrite Nat.add_succ_r. reflexivity.
Qed.

Lemma print_dec_first_not_special n :
  match print_dec n with
  | c :: _ => is_space c = false /\ ascii_eqb c "-" = false /\ ascii_eqb c "+" = false
  | [] => False
  end.
Proof.
  destruct (print_dec_spec n) as [Hne [Hall _]].
  destruct (print_dec n) as [|c r]; [congruence|]. inversion Hall as [|? ? [v Hv] _]; subst.
  unfold digit_val in Hv. destruct (is_digit c) eqn:Ed; [|cbn in Hv; discriminate].
  unfold is_digit, in_range in Ed. apply andb_true_iff in Ed. destruct Ed as [E1 E2].
  apply N.leb_le in E1. apply N.leb_le in E2.
  unfold is_space, in_range. repeat split.
  - destruct (N.leb_spec 9 (b2n c)); destruct (N.leb_spec (b2n c) 13); cbn; try lia.
    all: destruct (ascii_eqb c " ") eqn:E; [apply ascii_eqb_eq in E; subst c; cbn in *; lia|reflexivity].
  - destruct (ascii_eqb c "-") eqn:E; [apply ascii_eqb_eq in E; subst c; cbn in *; lia|reflexivity].
  - destruct (ascii_eqb c "+") eqn:E; [apply ascii_eqb_eq in E; subst c; cbn in *; lia|reflexivity].
Qed.

(* strtol (base 10, whole token) of the decimal text of n is n, up to LONG_MAX *)
Theorem strtol_print_dec n : (Z.of_N n <= LONG_MAX)%Z -> strtol_all 10 (print_dec n) = Some (Z.of_N n).
Proof.
  intros Hn. unfold strtol_all.
  pose proof (print_dec_first_not_special n) as Hf. destruct (print_dec_spec n) as [Hne [Hall Hv]].
  destruct (print_dec n) as [|c r] eqn:Ep; [congruence|]. destruct Hf as [Hs [Hm Hp]].
  cbn [skip_space]. rewrite Hs. cbn [strip_sign]. rewrite Hm, Hp.
  unfold strip_0x. replace (10 =? 16) with false by reflexivity.
  pose proof (take_digits_all (c :: r) [] 0 0 Hall I) as Ht. rewrite app_nil_r in Ht.
  rewrite Ht, Hv. cbn [length plus].
  destruct (LONG_MAX <? Z.of_N n)%Z eqn:E1; [apply Z.ltb_lt in E1; lia|].
  destruct (Z.of_N n <? LONG_MIN)%Z eqn:E2; [apply Z.ltb_lt in E2; unfold LONG_MIN in E2; lia|].
  reflexivity.
Qed.

(* std::stoull of the decimal text of n (followed by anything that does not start with a digit) *)
Theorem stoull_print_dec n rest :
  n <= 18446744073709551615 ->
  (match rest with x :: _ => digit_val 10 x = None | [] => True end) ->
  stoull (print_dec n ++ rest) = UllOk n.
Proof.
  intros Hn Hr. unfold stoull.
  pose proof (print_dec_first_not_special n) as Hf. destruct (print_dec_spec n) as [Hne [Hall Hv]].
  destruct (print_dec n) as [|c r] eqn:Ep; [congruence|]. destruct Hf as [Hs [Hm Hp]].
  cbn [app skip_space]. rewrite Hs. cbn [strip_sign]. rewrite Hm, Hp.
  change (c :: r ++ rest) with ((c :: r) ++ rest).
  rewrite (take_digits_all (c :: r) rest 0 0 Hall Hr). rewrite Hv. cbn [length plus].
  destruct (18446744073709551615 <? n) eqn:E; [apply N.ltb_lt in E; lia|]. reflexivity.
Qed.
